//! Reference model of the condition rules: maps a generator-output *value*
//! (an arena `Tree`), consensus flags and the visitor kind to
//! `Reject | Accept(summary)`.
//!
//! Written from the rules (crate README "Implementation notes", the flag
//! doc-comments, the eligibility comments at the top of conditions.rs, the
//! cost constants in opcodes.rs); it works on CLVM *values* only (never on
//! allocator node identity) and evaluates the *whole* input: a rule violated
//! anywhere rejects, independent of where the implementation stops first.
//! Error codes are therefore not modelled, only a coarse reason string for
//! labelling.

use crate::gentree::{Tid, Tree};
use crate::model::int::{classify_uint, enc_u64, UintClass};
use sha2::{Digest, Sha256};
use std::collections::{BTreeMap, BTreeSet, HashMap, HashSet};

// ---- flags (bit values are part of the public interface of chia-consensus)
pub const F_DONT_VALIDATE_SIGNATURE: u32 = 0x1_0000;
pub const F_NO_UNKNOWN_CONDS: u32 = 0x2_0000;
pub const F_STRICT_ARGS_COUNT: u32 = 0x8_0000;
pub const F_COST_CONDITIONS: u32 = 0x80_0000;
pub const F_LIMIT_SPENDS: u32 = 0x200_0000;

// ---- spend flags in the summary
pub const ELIGIBLE_FOR_DEDUP: u32 = 1;
pub const HAS_RELATIVE_CONDITION: u32 = 2;
pub const ELIGIBLE_FOR_FF: u32 = 4;

// ---- opcodes
pub const REMARK: u16 = 1;
pub const AGG_SIG_PARENT: u16 = 43;
pub const AGG_SIG_PUZZLE: u16 = 44;
pub const AGG_SIG_AMOUNT: u16 = 45;
pub const AGG_SIG_PUZZLE_AMOUNT: u16 = 46;
pub const AGG_SIG_PARENT_AMOUNT: u16 = 47;
pub const AGG_SIG_PARENT_PUZZLE: u16 = 48;
pub const AGG_SIG_UNSAFE: u16 = 49;
pub const AGG_SIG_ME: u16 = 50;
pub const CREATE_COIN: u16 = 51;
pub const RESERVE_FEE: u16 = 52;
pub const CREATE_COIN_ANNOUNCEMENT: u16 = 60;
pub const ASSERT_COIN_ANNOUNCEMENT: u16 = 61;
pub const CREATE_PUZZLE_ANNOUNCEMENT: u16 = 62;
pub const ASSERT_PUZZLE_ANNOUNCEMENT: u16 = 63;
pub const ASSERT_CONCURRENT_SPEND: u16 = 64;
pub const ASSERT_CONCURRENT_PUZZLE: u16 = 65;
pub const SEND_MESSAGE: u16 = 66;
pub const RECEIVE_MESSAGE: u16 = 67;
pub const ASSERT_MY_COIN_ID: u16 = 70;
pub const ASSERT_MY_PARENT_ID: u16 = 71;
pub const ASSERT_MY_PUZZLEHASH: u16 = 72;
pub const ASSERT_MY_AMOUNT: u16 = 73;
pub const ASSERT_MY_BIRTH_SECONDS: u16 = 74;
pub const ASSERT_MY_BIRTH_HEIGHT: u16 = 75;
pub const ASSERT_EPHEMERAL: u16 = 76;
pub const ASSERT_SECONDS_RELATIVE: u16 = 80;
pub const ASSERT_SECONDS_ABSOLUTE: u16 = 81;
pub const ASSERT_HEIGHT_RELATIVE: u16 = 82;
pub const ASSERT_HEIGHT_ABSOLUTE: u16 = 83;
pub const ASSERT_BEFORE_SECONDS_RELATIVE: u16 = 84;
pub const ASSERT_BEFORE_SECONDS_ABSOLUTE: u16 = 85;
pub const ASSERT_BEFORE_HEIGHT_RELATIVE: u16 = 86;
pub const ASSERT_BEFORE_HEIGHT_ABSOLUTE: u16 = 87;
pub const SOFTFORK: u16 = 90;

pub const KNOWN_OPCODES: [u16; 35] = [
    1, 43, 44, 45, 46, 47, 48, 49, 50, 51, 52, 60, 61, 62, 63, 64, 65, 66, 67, 70, 71, 72, 73, 74,
    75, 76, 80, 81, 82, 83, 84, 85, 86, 87, 90,
];

// ---- cost table (consensus constants)
pub const CREATE_COIN_COST: u64 = 1_800_000;
pub const AGG_SIG_COST: u64 = 1_200_000;
pub const SPEND_COST: u64 = 450_000;
pub const NEW_CREATE_COIN_COST: u64 = 1_350_000;
pub const MESSAGE_CONDITION_COST: u64 = 700;
pub const GENERIC_CONDITION_COST: u64 = 200;
pub const MAX_SPENDS_PER_BLOCK: usize = 6000;
pub const MAX_ANNOUNCE_PER_SPEND_PRE_FORK: u32 = 1024;

/// cost of a two-byte condition opcode: `100 · 17^i / 16^i` for `i` = low
/// byte, truncated to three significant decimal digits. Computed in exact
/// big-integer arithmetic.
pub fn two_byte_opcode_cost(low: u8) -> u64 {
    use num_bigint::BigUint;
    let num = BigUint::from(100u32) * BigUint::from(17u32).pow(u32::from(low));
    let den = BigUint::from(16u32).pow(u32::from(low));
    let v: BigUint = num / den;
    // truncate to 3 significant digits
    let s = v.to_str_radix(10);
    if s.len() <= 3 {
        return s.parse().unwrap();
    }
    let mut out = String::from(&s[..3]);
    for _ in 3..s.len() {
        out.push('0');
    }
    out.parse().unwrap()
}

#[derive(Clone, Debug, Default)]
pub struct Constants {
    pub agg_sig_me: [u8; 32],
    pub agg_sig_parent: [u8; 32],
    pub agg_sig_puzzle: [u8; 32],
    pub agg_sig_amount: [u8; 32],
    pub agg_sig_puzzle_amount: [u8; 32],
    pub agg_sig_parent_amount: [u8; 32],
    pub agg_sig_parent_puzzle: [u8; 32],
}

impl Constants {
    pub fn all(&self) -> [&[u8; 32]; 7] {
        [
            &self.agg_sig_me,
            &self.agg_sig_parent,
            &self.agg_sig_puzzle,
            &self.agg_sig_amount,
            &self.agg_sig_puzzle_amount,
            &self.agg_sig_parent_amount,
            &self.agg_sig_parent_puzzle,
        ]
    }
}

pub type Hint = Option<Vec<u8>>;

#[derive(Clone, Debug, Default, PartialEq, Eq)]
pub struct MSpend {
    pub coin_id: [u8; 32],
    pub parent_id: [u8; 32],
    pub puzzle_hash: [u8; 32],
    pub coin_amount: u64,
    pub height_relative: Option<u32>,
    pub seconds_relative: Option<u64>,
    pub before_height_relative: Option<u32>,
    pub before_seconds_relative: Option<u64>,
    pub birth_height: Option<u32>,
    pub birth_seconds: Option<u64>,
    /// sorted by (puzzle hash, amount)
    pub create_coin: Vec<([u8; 32], u64, Hint)>,
    /// in emission order: (public key bytes, message)
    pub agg_sig_me: Vec<(Vec<u8>, Vec<u8>)>,
    pub agg_sig_parent: Vec<(Vec<u8>, Vec<u8>)>,
    pub agg_sig_puzzle: Vec<(Vec<u8>, Vec<u8>)>,
    pub agg_sig_amount: Vec<(Vec<u8>, Vec<u8>)>,
    pub agg_sig_puzzle_amount: Vec<(Vec<u8>, Vec<u8>)>,
    pub agg_sig_parent_amount: Vec<(Vec<u8>, Vec<u8>)>,
    pub agg_sig_parent_puzzle: Vec<(Vec<u8>, Vec<u8>)>,
    pub flags: u32,
    pub condition_cost: u64,
    /// the model cannot decide the fast-forward bit for this spend (position
    /// rule of ASSERT_MY_PARENT_ID in the presence of unrecognised opcodes)
    pub ff_undecided: bool,
}

#[derive(Clone, Debug, Default, PartialEq, Eq)]
pub struct MBundle {
    pub spends: Vec<MSpend>,
    pub reserve_fee: u64,
    pub height_absolute: u32,
    pub seconds_absolute: u64,
    pub before_height_absolute: Option<u32>,
    pub before_seconds_absolute: Option<u64>,
    pub agg_sig_unsafe: Vec<(Vec<u8>, Vec<u8>)>,
    pub removal_amount: u128,
    pub addition_amount: u128,
    pub condition_cost: u64,
    /// (public key, final signed message) in emission order
    pub pkm_pairs: Vec<(Vec<u8>, Vec<u8>)>,
}

#[derive(Clone, Debug, PartialEq, Eq)]
pub enum Outcome {
    Accept(Box<MBundle>),
    /// reason (coarse, for labelling), and whether the cause is at the
    /// condition level / cross-spend level (true) or a broken outer shape (false)
    Reject(&'static str, bool),
}

pub struct Params<'a> {
    pub flags: u32,
    pub mempool_visitor: bool,
    pub constants: &'a Constants,
    /// oracle for "is this 48-byte string a valid, non-infinity G1 public
    /// key" (delegated: BLS validity is decided by C16, not re-modelled here)
    pub key_ok: &'a dyn Fn(&[u8]) -> bool,
    /// cost limit (condition costs only)
    pub max_cost: u64,
}

fn sha(parts: &[&[u8]]) -> [u8; 32] {
    let mut h = Sha256::new();
    for p in parts {
        h.update(p);
    }
    h.finalize().into()
}

pub fn coin_id(parent: &[u8; 32], ph: &[u8; 32], amount: u64) -> [u8; 32] {
    sha(&[parent, ph, &enc_u64(amount)])
}

struct Reject(&'static str, bool);

type R<T> = Result<T, Reject>;

fn rej<T>(why: &'static str) -> R<T> {
    Err(Reject(why, true))
}

/// first element of a list cell
fn first(t: &Tree, id: Tid) -> R<Tid> {
    match t.pair_of(id) {
        Some((l, _)) => Ok(l),
        None => rej("arg-list-too-short"),
    }
}
fn rest(t: &Tree, id: Tid) -> R<Tid> {
    match t.pair_of(id) {
        Some((_, r)) => Ok(r),
        None => rej("arg-list-too-short"),
    }
}
fn is_nil(t: &Tree, id: Tid) -> bool {
    matches!(t.atom_bytes(id), Some(b) if b.is_empty())
}
fn atom<'a>(t: &'a Tree, id: Tid, why: &'static str) -> R<&'a [u8]> {
    match t.atom_bytes(id) {
        Some(b) => Ok(b),
        None => rej(why),
    }
}
fn hash_arg<'a>(t: &'a Tree, id: Tid, len: usize, why: &'static str) -> R<&'a [u8]> {
    let b = atom(t, id, why)?;
    if b.len() == len {
        Ok(b)
    } else {
        rej(why)
    }
}
fn arr32(b: &[u8]) -> [u8; 32] {
    b.try_into().unwrap()
}

/// opcode recognition: Some(op) for the 35 one-byte codes and for two-byte
/// codes whose first byte is non-zero
pub fn parse_opcode(t: &Tree, id: Tid) -> Option<u16> {
    let b = t.atom_bytes(id)?;
    match b.len() {
        1 => {
            let op = u16::from(b[0]);
            if KNOWN_OPCODES.contains(&op) {
                Some(op)
            } else {
                None
            }
        }
        2 if b[0] != 0 => Some((u16::from(b[0]) << 8) | u16::from(b[1])),
        _ => None,
    }
}

enum IntArg {
    Ok(u64),
    Negative,
    TooLarge,
}

fn int_arg(t: &Tree, id: Tid, width: usize, why: &'static str) -> R<IntArg> {
    let b = atom(t, id, why)?;
    match classify_uint(b, width) {
        UintClass::Ok(v) => Ok(IntArg::Ok(v)),
        UintClass::Negative => Ok(IntArg::Negative),
        UintClass::TooLarge => Ok(IntArg::TooLarge),
        UintClass::NonCanonical => rej(why),
    }
}

/// integer that must be a canonical non-negative value of the width
fn strict_int(t: &Tree, id: Tid, width: usize, why: &'static str) -> R<u64> {
    match int_arg(t, id, width, why)? {
        IntArg::Ok(v) => Ok(v),
        _ => rej(why),
    }
}

#[derive(Clone, Debug, PartialEq, Eq, Hash, PartialOrd, Ord)]
enum SpendIdKey {
    None,
    CoinId([u8; 32]),
    Parent([u8; 32]),
    Puzzle([u8; 32]),
    Amount(u64),
    PuzzleAmount([u8; 32], u64),
    ParentAmount([u8; 32], u64),
    ParentPuzzle([u8; 32], [u8; 32]),
}

/// parse the counterpart description of a message condition; advances `c`
fn parse_spend_id(t: &Tree, c: &mut Tid, mode: u8) -> R<SpendIdKey> {
    if mode == 0b111 {
        let id = hash_arg(t, first(t, *c)?, 32, "message-bad-coin-id")?;
        *c = rest(t, *c)?;
        return Ok(SpendIdKey::CoinId(arr32(id)));
    }
    let mut parent = [0u8; 32];
    let mut puzzle = [0u8; 32];
    let mut amount = 0u64;
    if mode & 0b100 != 0 {
        parent = arr32(hash_arg(t, first(t, *c)?, 32, "message-bad-parent")?);
        *c = rest(t, *c)?;
    }
    if mode & 0b010 != 0 {
        puzzle = arr32(hash_arg(t, first(t, *c)?, 32, "message-bad-puzzle")?);
        *c = rest(t, *c)?;
    }
    if mode & 0b001 != 0 {
        amount = strict_int(t, first(t, *c)?, 8, "message-bad-amount")?;
        *c = rest(t, *c)?;
    }
    Ok(match mode {
        0b100 => SpendIdKey::Parent(parent),
        0b010 => SpendIdKey::Puzzle(puzzle),
        0b001 => SpendIdKey::Amount(amount),
        0b110 => SpendIdKey::ParentPuzzle(parent, puzzle),
        0b101 => SpendIdKey::ParentAmount(parent, amount),
        0b011 => SpendIdKey::PuzzleAmount(puzzle, amount),
        _ => SpendIdKey::None,
    })
}

fn self_spend_id(mode: u8, s: &MSpend) -> SpendIdKey {
    match mode {
        0b111 => SpendIdKey::CoinId(s.coin_id),
        0b100 => SpendIdKey::Parent(s.parent_id),
        0b010 => SpendIdKey::Puzzle(s.puzzle_hash),
        0b001 => SpendIdKey::Amount(s.coin_amount),
        0b110 => SpendIdKey::ParentPuzzle(s.parent_id, s.puzzle_hash),
        0b101 => SpendIdKey::ParentAmount(s.parent_id, s.coin_amount),
        0b011 => SpendIdKey::PuzzleAmount(s.puzzle_hash, s.coin_amount),
        _ => SpendIdKey::None,
    }
}

/// message mode: canonical small non-negative integer with only the low six
/// bits allowed
fn message_mode(t: &Tree, id: Tid) -> R<u8> {
    let b = atom(t, id, "message-bad-mode")?;
    match classify_uint(b, 4) {
        UintClass::Ok(v) if v < 64 => Ok(v as u8),
        _ => rej("message-bad-mode"),
    }
}

#[derive(Default)]
struct Cross {
    announce_coin: HashSet<([u8; 32], Vec<u8>)>,
    announce_puzzle: HashSet<([u8; 32], Vec<u8>)>,
    assert_coin: Vec<[u8; 32]>,
    assert_puzzle: Vec<[u8; 32]>,
    assert_concurrent_spend: Vec<[u8; 32]>,
    assert_concurrent_puzzle: Vec<[u8; 32]>,
    messages: HashMap<(SpendIdKey, SpendIdKey, Vec<u8>), i64>,
    assert_ephemeral: BTreeSet<usize>,
    assert_not_ephemeral: BTreeSet<usize>,
}

struct SpendExtra {
    /// facts needed for the eligibility rules
    has_agg_sig_any: bool,
    has_agg_sig_parent_bound: bool,
    has_message: bool,
    has_message_parent_bound: bool,
    has_my_coin_id: bool,
    bad_parent_id_position: bool,
    has_timelock_or_ephemeral: bool,
    has_coin_announcement: bool,
    has_unrecognised_opcode: bool,
    has_my_parent_id: bool,
}

pub fn evaluate(t: &Tree, root: Tid, p: &Params<'_>) -> Outcome {
    match eval_inner(t, root, p) {
        Ok(b) => Outcome::Accept(Box::new(b)),
        Err(Reject(why, cond_level)) => Outcome::Reject(why, cond_level),
    }
}

fn eval_inner(t: &Tree, root: Tid, p: &Params<'_>) -> R<MBundle> {
    let strict = p.flags & F_STRICT_ARGS_COUNT != 0;
    let no_unknown = p.flags & F_NO_UNKNOWN_CONDS != 0;
    let cost_conds = p.flags & F_COST_CONDITIONS != 0;
    let limit_spends = p.flags & F_LIMIT_SPENDS != 0;
    let validate_sig = p.flags & F_DONT_VALIDATE_SIGNATURE == 0;

    let mut ret = MBundle::default();
    let mut cross = Cross::default();
    let mut extras: Vec<SpendExtra> = vec![];
    let mut spent: BTreeMap<[u8; 32], usize> = BTreeMap::new();
    let mut spent_puzzles: BTreeSet<[u8; 32]> = BTreeSet::new();
    let mut cost: u128 = 0;

    // the output is a list whose first element is the list of spends
    let Some((spends, _)) = t.pair_of(root) else {
        return Err(Reject("output-not-a-list", false));
    };
    let (items, term) = t.list_items(spends);
    // a non-nil terminator of the spend list is invalid
    let bad_spend_terminator = !is_nil(t, term);
    let mut reserve_fee: u128 = 0;

    for (idx, sp) in items.iter().enumerate() {
        if limit_spends && idx >= MAX_SPENDS_PER_BLOCK {
            return rej("too-many-spends");
        }
        // (parent puzzle-hash amount conditions . extra)
        let mut c = *sp;
        let mut fields = [0 as Tid; 4];
        for f in &mut fields {
            match t.pair_of(c) {
                Some((l, r)) => {
                    *f = l;
                    c = r;
                }
                None => return Err(Reject("spend-too-short", false)),
            }
        }
        let parent = hash_arg(t, fields[0], 32, "spend-bad-parent").map_err(|r| Reject(r.0, false))?;
        let ph = hash_arg(t, fields[1], 32, "spend-bad-puzzle-hash").map_err(|r| Reject(r.0, false))?;
        let amount = strict_int(t, fields[2], 8, "spend-bad-amount").map_err(|r| Reject(r.0, false))?;
        let mut s = MSpend {
            parent_id: arr32(parent),
            puzzle_hash: arr32(ph),
            coin_amount: amount,
            ..Default::default()
        };
        s.coin_id = coin_id(&s.parent_id, &s.puzzle_hash, amount);
        if spent.insert(s.coin_id, idx).is_some() {
            return rej("double-spend");
        }
        spent_puzzles.insert(s.puzzle_hash);
        ret.removal_amount += u128::from(amount);
        if cost_conds {
            s.condition_cost += SPEND_COST;
        }
        if p.mempool_visitor {
            s.flags |= ELIGIBLE_FOR_DEDUP;
            if amount & 1 == 1 {
                s.flags |= ELIGIBLE_FOR_FF;
            }
        }
        let mut ex = SpendExtra {
            has_agg_sig_any: false,
            has_agg_sig_parent_bound: false,
            has_message: false,
            has_message_parent_bound: false,
            has_my_coin_id: false,
            bad_parent_id_position: false,
            has_timelock_or_ephemeral: false,
            has_coin_announcement: false,
            has_unrecognised_opcode: false,
            has_my_parent_id: false,
        };
        eval_conditions(
            t, fields[3], p, strict, no_unknown, cost_conds, validate_sig, idx, &mut s, &mut ex,
            &mut ret, &mut cross, &mut reserve_fee,
        )?;
        cost += u128::from(s.condition_cost);
        ret.spends.push(s);
        extras.push(ex);
    }
    if bad_spend_terminator {
        return Err(Reject("spend-list-bad-terminator", false));
    }

    // ---- bundle-level rules
    if reserve_fee > u128::from(u64::MAX) {
        return rej("reserve-fee-overflow");
    }
    ret.reserve_fee = reserve_fee as u64;
    if ret.addition_amount > ret.removal_amount {
        return rej("minting");
    }
    if ret.removal_amount - ret.addition_amount < reserve_fee {
        return rej("reserve-fee-not-covered");
    }
    if let Some(bh) = ret.before_height_absolute {
        if bh <= ret.height_absolute {
            return rej("impossible-height-absolute");
        }
    }
    if let Some(bs) = ret.before_seconds_absolute {
        if bs <= ret.seconds_absolute {
            return rej("impossible-seconds-absolute");
        }
    }
    for id in &cross.assert_concurrent_spend {
        if !spent.contains_key(id) {
            return rej("concurrent-spend-missing");
        }
    }
    for ph in &cross.assert_concurrent_puzzle {
        if !spent_puzzles.contains(ph) {
            return rej("concurrent-puzzle-missing");
        }
    }
    if !cross.assert_coin.is_empty() {
        let ids: HashSet<[u8; 32]> = cross
            .announce_coin
            .iter()
            .map(|(cid, msg)| sha(&[cid, msg]))
            .collect();
        for a in &cross.assert_coin {
            if !ids.contains(a) {
                return rej("coin-announcement-missing");
            }
        }
    }
    if !cross.assert_puzzle.is_empty() {
        let ids: HashSet<[u8; 32]> = cross
            .announce_puzzle
            .iter()
            .map(|(ph, msg)| sha(&[ph, msg]))
            .collect();
        for a in &cross.assert_puzzle {
            if !ids.contains(a) {
                return rej("puzzle-announcement-missing");
            }
        }
    }
    // ephemeral rules: a spend is ephemeral iff its parent is spent in this
    // bundle and that parent creates (puzzle hash, amount)
    let is_ephemeral = |i: usize| -> bool {
        let s = &ret.spends[i];
        match spent.get(&s.parent_id) {
            None => false,
            Some(pi) => ret.spends[*pi]
                .create_coin
                .iter()
                .any(|(ph, am, _)| *ph == s.puzzle_hash && *am == s.coin_amount),
        }
    };
    for i in &cross.assert_ephemeral {
        if !is_ephemeral(*i) {
            return rej("assert-ephemeral-failed");
        }
    }
    for i in &cross.assert_not_ephemeral {
        if is_ephemeral(*i) {
            return rej("relative-condition-on-ephemeral");
        }
    }
    for v in cross.messages.values() {
        if *v != 0 {
            return rej("message-not-matched");
        }
    }
    if cost > u128::from(p.max_cost) {
        return rej("cost-exceeded");
    }
    ret.condition_cost = cost as u64;

    // ---- mempool eligibility (second pass: rules that look across spends)
    if p.mempool_visitor {
        let concurrent: HashSet<[u8; 32]> = cross.assert_concurrent_spend.iter().copied().collect();
        let n = ret.spends.len();
        for i in 0..n {
            let ex = &extras[i];
            let s = &ret.spends[i];
            let mut flags = s.flags;
            // dedup: no signatures, no messages, outputs >= input
            let out: u128 = s.create_coin.iter().map(|c| u128::from(c.1)).sum();
            if ex.has_agg_sig_any || ex.has_message || u128::from(s.coin_amount) > out {
                flags &= !ELIGIBLE_FOR_DEDUP;
            }
            // fast forward
            let recreates_self = s
                .create_coin
                .iter()
                .any(|(ph, am, _)| *ph == s.puzzle_hash && *am == s.coin_amount);
            let output_spent = s
                .create_coin
                .iter()
                .any(|(ph, am, _)| spent.contains_key(&coin_id(&s.coin_id, ph, *am)));
            if ex.has_agg_sig_parent_bound
                || ex.has_my_coin_id
                || ex.bad_parent_id_position
                || ex.has_timelock_or_ephemeral
                || ex.has_message_parent_bound
                || ex.has_coin_announcement
                || !recreates_self
                || output_spent
                || concurrent.contains(&s.coin_id)
            {
                flags &= !ELIGIBLE_FOR_FF;
            }
            let undecided = ex.has_unrecognised_opcode && ex.has_my_parent_id;
            let s = &mut ret.spends[i];
            s.flags = flags;
            s.ff_undecided = undecided;
        }
    }
    for s in &mut ret.spends {
        s.create_coin.sort();
    }
    Ok(ret)
}

#[allow(clippy::too_many_arguments)]
fn eval_conditions(
    t: &Tree,
    conds: Tid,
    p: &Params<'_>,
    strict: bool,
    no_unknown: bool,
    cost_conds: bool,
    validate_sig: bool,
    idx: usize,
    s: &mut MSpend,
    ex: &mut SpendExtra,
    ret: &mut MBundle,
    cross: &mut Cross,
    reserve_fee: &mut u128,
) -> R<()> {
    let (items, term) = t.list_items(conds);
    let mut announce_count: u32 = 0;
    let mut recognised_index: u32 = 0;
    let mut created: BTreeSet<([u8; 32], u64)> = BTreeSet::new();
    // relative lock bookkeeping for the impossibility rule
    let mut after_h: Option<u32> = None;
    let mut after_s: Option<u64> = None;
    let mut before_h: Option<u32> = None;
    let mut before_s: Option<u64> = None;
    let count_announce = |n: &mut u32| -> R<()> {
        if !cost_conds {
            *n += 1;
            if *n > MAX_ANNOUNCE_PER_SPEND_PRE_FORK {
                return rej("too-many-announcements");
            }
        }
        Ok(())
    };

    for cnd in items {
        // every condition is a list starting with the opcode
        let Some((op_node, args)) = t.pair_of(cnd) else {
            return rej("condition-not-a-list");
        };
        let Some(op) = parse_opcode(t, op_node) else {
            if no_unknown {
                return rej("unknown-opcode-strict");
            }
            if cost_conds {
                s.condition_cost += GENERIC_CONDITION_COST;
            }
            ex.has_unrecognised_opcode = true;
            continue;
        };
        let position = recognised_index;
        recognised_index += 1;
        // ---- cost
        match op {
            CREATE_COIN => {
                s.condition_cost += if cost_conds {
                    NEW_CREATE_COIN_COST
                } else {
                    CREATE_COIN_COST
                }
            }
            43..=50 => s.condition_cost += AGG_SIG_COST,
            60..=67 => {
                if cost_conds {
                    s.condition_cost += MESSAGE_CONDITION_COST;
                }
            }
            _ => {
                if cost_conds {
                    s.condition_cost += GENERIC_CONDITION_COST;
                }
            }
        }
        let mut c = args;
        match op {
            43..=50 => {
                let pk = hash_arg(t, first(t, c)?, 48, "agg-sig-bad-key")?.to_vec();
                c = rest(t, c)?;
                let msg = atom(t, first(t, c)?, "agg-sig-bad-message")?.to_vec();
                if msg.len() > 1024 {
                    return rej("agg-sig-bad-message");
                }
                if strict && !is_nil(t, rest(t, c)?) {
                    return rej("strict-extra-args");
                }
                if op == AGG_SIG_UNSAFE && msg.len() >= 32 {
                    for k in p.constants.all() {
                        if msg.ends_with(k) {
                            return rej("agg-sig-unsafe-banned-suffix");
                        }
                    }
                }
                if !(p.key_ok)(&pk) {
                    return rej("agg-sig-invalid-key");
                }
                ex.has_agg_sig_any = true;
                let amount = enc_u64(s.coin_amount);
                let (list, suffix): (&mut Vec<(Vec<u8>, Vec<u8>)>, Vec<&[u8]>) = match op {
                    AGG_SIG_ME => {
                        ex.has_agg_sig_parent_bound = true;
                        (&mut s.agg_sig_me, vec![&s.coin_id, &p.constants.agg_sig_me])
                    }
                    AGG_SIG_PARENT => {
                        ex.has_agg_sig_parent_bound = true;
                        (&mut s.agg_sig_parent, vec![&s.parent_id, &p.constants.agg_sig_parent])
                    }
                    AGG_SIG_PUZZLE => (&mut s.agg_sig_puzzle, vec![&s.puzzle_hash, &p.constants.agg_sig_puzzle]),
                    AGG_SIG_AMOUNT => (&mut s.agg_sig_amount, vec![&amount, &p.constants.agg_sig_amount]),
                    AGG_SIG_PUZZLE_AMOUNT => (
                        &mut s.agg_sig_puzzle_amount,
                        vec![&s.puzzle_hash, &amount, &p.constants.agg_sig_puzzle_amount],
                    ),
                    AGG_SIG_PARENT_AMOUNT => {
                        ex.has_agg_sig_parent_bound = true;
                        (
                            &mut s.agg_sig_parent_amount,
                            vec![&s.parent_id, &amount, &p.constants.agg_sig_parent_amount],
                        )
                    }
                    AGG_SIG_PARENT_PUZZLE => {
                        ex.has_agg_sig_parent_bound = true;
                        (
                            &mut s.agg_sig_parent_puzzle,
                            vec![&s.parent_id, &s.puzzle_hash, &p.constants.agg_sig_parent_puzzle],
                        )
                    }
                    _ => (&mut ret.agg_sig_unsafe, vec![]),
                };
                if validate_sig {
                    let mut full = msg.clone();
                    for part in &suffix {
                        full.extend_from_slice(part);
                    }
                    ret.pkm_pairs.push((pk.clone(), full));
                }
                list.push((pk, msg));
            }
            CREATE_COIN => {
                let ph = arr32(hash_arg(t, first(t, c)?, 32, "create-coin-bad-puzzle-hash")?);
                c = rest(t, c)?;
                let amount = strict_int(t, first(t, c)?, 8, "create-coin-bad-amount")?;
                c = rest(t, c)?;
                let mut hint: Hint = None;
                match t.pair_of(c) {
                    Some((memos, tail)) => {
                        if strict && !is_nil(t, tail) {
                            return rej("strict-extra-args");
                        }
                        if let Some((m0, _)) = t.pair_of(memos) {
                            if let Some(b) = t.atom_bytes(m0) {
                                // the hint is the first memo when it is an atom of at
                                // most 32 bytes; an empty atom is "no hint"
                                if !b.is_empty() && b.len() <= 32 {
                                    hint = Some(b.to_vec());
                                }
                            }
                        }
                    }
                    None => {
                        if strict && !is_nil(t, c) {
                            return rej("strict-bad-terminator");
                        }
                    }
                }
                if !created.insert((ph, amount)) {
                    return rej("duplicate-output");
                }
                s.create_coin.push((ph, amount, hint));
                ret.addition_amount += u128::from(amount);
            }
            SOFTFORK => {
                if no_unknown {
                    return rej("softfork-in-strict-mode");
                }
                let v = strict_int(t, first(t, c)?, 4, "softfork-bad-cost")?;
                s.condition_cost = s
                    .condition_cost
                    .checked_add(v * 10000)
                    .ok_or(Reject("cost-exceeded", true))?;
            }
            256..=65535 => {
                if no_unknown {
                    return rej("two-byte-opcode-in-strict-mode");
                }
                s.condition_cost += two_byte_opcode_cost((op & 0xff) as u8);
            }
            REMARK => {}
            ASSERT_EPHEMERAL => {
                if strict && !is_nil(t, c) {
                    return rej("strict-extra-args");
                }
                cross.assert_ephemeral.insert(idx);
                ex.has_timelock_or_ephemeral = true;
            }
            SEND_MESSAGE | RECEIVE_MESSAGE => {
                let mode = message_mode(t, first(t, c)?)?;
                c = rest(t, c)?;
                let msg = atom(t, first(t, c)?, "message-bad-message")?.to_vec();
                if msg.len() > 1024 {
                    return rej("message-bad-message");
                }
                c = rest(t, c)?;
                let (src_mode, dst_mode) = ((mode >> 3) & 7, mode & 7);
                let (src, dst, delta, own_mode) = if op == SEND_MESSAGE {
                    let dst = parse_spend_id(t, &mut c, dst_mode)?;
                    (self_spend_id(src_mode, s), dst, 1i64, src_mode)
                } else {
                    let src = parse_spend_id(t, &mut c, src_mode)?;
                    (src, self_spend_id(dst_mode, s), -1i64, dst_mode)
                };
                if strict && !is_nil(t, c) {
                    return rej("strict-extra-args");
                }
                count_announce(&mut announce_count)?;
                // a coin-id description of the counterpart and "self as coin id"
                // are the same key
                *cross.messages.entry((src, dst, msg)).or_insert(0) += delta;
                ex.has_message = true;
                if own_mode & 0b100 != 0 {
                    ex.has_message_parent_bound = true;
                }
            }
            _ => {
                // all remaining known opcodes take exactly one argument
                if strict && !is_nil(t, rest(t, c)?) {
                    return rej("strict-extra-args");
                }
                let arg = first(t, c)?;
                match op {
                    RESERVE_FEE => {
                        let v = strict_int(t, arg, 8, "reserve-fee-bad-amount")?;
                        *reserve_fee += u128::from(v);
                    }
                    ASSERT_MY_AMOUNT => {
                        let v = strict_int(t, arg, 8, "my-amount-bad")?;
                        if v != s.coin_amount {
                            return rej("my-amount-mismatch");
                        }
                    }
                    CREATE_COIN_ANNOUNCEMENT | CREATE_PUZZLE_ANNOUNCEMENT => {
                        let m = atom(t, arg, "announcement-bad-message")?;
                        if m.len() > 1024 {
                            return rej("announcement-bad-message");
                        }
                        count_announce(&mut announce_count)?;
                        if op == CREATE_COIN_ANNOUNCEMENT {
                            cross.announce_coin.insert((s.coin_id, m.to_vec()));
                            ex.has_coin_announcement = true;
                        } else {
                            cross.announce_puzzle.insert((s.puzzle_hash, m.to_vec()));
                        }
                    }
                    ASSERT_COIN_ANNOUNCEMENT => {
                        let h = arr32(hash_arg(t, arg, 32, "assert-announcement-bad-id")?);
                        count_announce(&mut announce_count)?;
                        cross.assert_coin.push(h);
                    }
                    ASSERT_PUZZLE_ANNOUNCEMENT => {
                        let h = arr32(hash_arg(t, arg, 32, "assert-announcement-bad-id")?);
                        count_announce(&mut announce_count)?;
                        cross.assert_puzzle.push(h);
                    }
                    ASSERT_CONCURRENT_SPEND => {
                        let h = arr32(hash_arg(t, arg, 32, "concurrent-bad-id")?);
                        count_announce(&mut announce_count)?;
                        cross.assert_concurrent_spend.push(h);
                    }
                    ASSERT_CONCURRENT_PUZZLE => {
                        let h = arr32(hash_arg(t, arg, 32, "concurrent-bad-id")?);
                        count_announce(&mut announce_count)?;
                        cross.assert_concurrent_puzzle.push(h);
                    }
                    ASSERT_MY_COIN_ID => {
                        let h = hash_arg(t, arg, 32, "my-coin-id-bad")?;
                        if h != s.coin_id {
                            return rej("my-coin-id-mismatch");
                        }
                        ex.has_my_coin_id = true;
                    }
                    ASSERT_MY_PARENT_ID => {
                        let h = hash_arg(t, arg, 32, "my-parent-id-bad")?;
                        if h != s.parent_id {
                            return rej("my-parent-id-mismatch");
                        }
                        ex.has_my_parent_id = true;
                        if position != 1 {
                            ex.bad_parent_id_position = true;
                        }
                    }
                    ASSERT_MY_PUZZLEHASH => {
                        let h = hash_arg(t, arg, 32, "my-puzzlehash-bad")?;
                        if h != s.puzzle_hash {
                            return rej("my-puzzlehash-mismatch");
                        }
                    }
                    ASSERT_MY_BIRTH_SECONDS => {
                        let v = strict_int(t, arg, 8, "birth-seconds-bad")?;
                        if s.birth_seconds.is_some_and(|x| x != v) {
                            return rej("birth-seconds-conflict");
                        }
                        s.birth_seconds = Some(v);
                        cross.assert_not_ephemeral.insert(idx);
                        s.flags |= HAS_RELATIVE_CONDITION;
                        ex.has_timelock_or_ephemeral = true;
                    }
                    ASSERT_MY_BIRTH_HEIGHT => {
                        let v = strict_int(t, arg, 4, "birth-height-bad")? as u32;
                        if s.birth_height.is_some_and(|x| x != v) {
                            return rej("birth-height-conflict");
                        }
                        s.birth_height = Some(v);
                        cross.assert_not_ephemeral.insert(idx);
                        s.flags |= HAS_RELATIVE_CONDITION;
                        ex.has_timelock_or_ephemeral = true;
                    }
                    ASSERT_SECONDS_RELATIVE | ASSERT_HEIGHT_RELATIVE => {
                        let w = if op == ASSERT_SECONDS_RELATIVE { 8 } else { 4 };
                        match int_arg(t, arg, w, "relative-lock-bad")? {
                            IntArg::TooLarge => return rej("relative-lock-unsatisfiable"),
                            IntArg::Negative => {
                                // always true, but still a relative condition
                            }
                            IntArg::Ok(v) => {
                                if op == ASSERT_SECONDS_RELATIVE {
                                    s.seconds_relative = Some(s.seconds_relative.map_or(v, |x| x.max(v)));
                                    after_s = s.seconds_relative;
                                } else {
                                    let v = v as u32;
                                    s.height_relative = Some(s.height_relative.map_or(v, |x| x.max(v)));
                                    after_h = s.height_relative;
                                }
                                ex.has_timelock_or_ephemeral = true;
                            }
                        }
                        cross.assert_not_ephemeral.insert(idx);
                        s.flags |= HAS_RELATIVE_CONDITION;
                    }
                    ASSERT_BEFORE_SECONDS_RELATIVE | ASSERT_BEFORE_HEIGHT_RELATIVE => {
                        let w = if op == ASSERT_BEFORE_SECONDS_RELATIVE { 8 } else { 4 };
                        match int_arg(t, arg, w, "before-relative-bad")? {
                            IntArg::Negative => return rej("before-relative-unsatisfiable"),
                            IntArg::TooLarge => {}
                            IntArg::Ok(v) => {
                                if op == ASSERT_BEFORE_SECONDS_RELATIVE {
                                    s.before_seconds_relative =
                                        Some(s.before_seconds_relative.map_or(v, |x| x.min(v)));
                                    before_s = s.before_seconds_relative;
                                } else {
                                    let v = v as u32;
                                    s.before_height_relative =
                                        Some(s.before_height_relative.map_or(v, |x| x.min(v)));
                                    before_h = s.before_height_relative;
                                }
                                ex.has_timelock_or_ephemeral = true;
                            }
                        }
                        cross.assert_not_ephemeral.insert(idx);
                        s.flags |= HAS_RELATIVE_CONDITION;
                    }
                    ASSERT_SECONDS_ABSOLUTE => match int_arg(t, arg, 8, "absolute-lock-bad")? {
                        IntArg::TooLarge => return rej("absolute-lock-unsatisfiable"),
                        IntArg::Negative => {}
                        IntArg::Ok(v) => ret.seconds_absolute = ret.seconds_absolute.max(v),
                    },
                    ASSERT_HEIGHT_ABSOLUTE => match int_arg(t, arg, 4, "absolute-lock-bad")? {
                        IntArg::TooLarge => return rej("absolute-lock-unsatisfiable"),
                        IntArg::Negative => {}
                        IntArg::Ok(v) => ret.height_absolute = ret.height_absolute.max(v as u32),
                    },
                    ASSERT_BEFORE_SECONDS_ABSOLUTE => match int_arg(t, arg, 8, "before-absolute-bad")? {
                        IntArg::Negative => return rej("before-absolute-unsatisfiable"),
                        IntArg::TooLarge => {}
                        IntArg::Ok(v) => {
                            ret.before_seconds_absolute =
                                Some(ret.before_seconds_absolute.map_or(v, |x| x.min(v)));
                        }
                    },
                    ASSERT_BEFORE_HEIGHT_ABSOLUTE => match int_arg(t, arg, 4, "before-absolute-bad")? {
                        IntArg::Negative => return rej("before-absolute-unsatisfiable"),
                        IntArg::TooLarge => {}
                        IntArg::Ok(v) => {
                            let v = v as u32;
                            ret.before_height_absolute =
                                Some(ret.before_height_absolute.map_or(v, |x| x.min(v)));
                        }
                    },
                    _ => unreachable!("opcode table"),
                }
            }
        }
    }
    if !is_nil(t, term) {
        return rej("condition-list-bad-terminator");
    }
    // impossible relative constraints within this spend: some "after" lock is
    // not strictly below some "before" lock
    if let (Some(a), Some(b)) = (after_h, before_h) {
        if b <= a {
            return rej("impossible-height-relative");
        }
    }
    if let (Some(a), Some(b)) = (after_s, before_s) {
        if b <= a {
            return rej("impossible-seconds-relative");
        }
    }
    Ok(())
}

#[cfg(test)]
mod tests {
    use super::*;
    #[test]
    fn cost_table_samples() {
        assert_eq!(two_byte_opcode_cost(0), 100);
        assert_eq!(two_byte_opcode_cost(1), 106);
        assert_eq!(two_byte_opcode_cost(2), 112);
        // 100*(17/16)^255 ≈ 5.15e8
        let v = two_byte_opcode_cost(255);
        assert!(v > 500_000_000 && v < 530_000_000, "{v}");
    }
}
