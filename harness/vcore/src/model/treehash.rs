//! Reference tree hash: sha256(1 ‖ atom) / sha256(2 ‖ left ‖ right), computed
//! bottom-up over the arena (children precede parents), plus tree-level
//! construction of curried programs.

use crate::gentree::{TNode, Tid, Tree};
use sha2::{Digest, Sha256};

pub fn hash_atom(b: &[u8]) -> [u8; 32] {
    let mut h = Sha256::new();
    h.update([1u8]);
    h.update(b);
    h.finalize().into()
}

pub fn hash_pair(l: &[u8; 32], r: &[u8; 32]) -> [u8; 32] {
    let mut h = Sha256::new();
    h.update([2u8]);
    h.update(l);
    h.update(r);
    h.finalize().into()
}

/// hashes of every arena node up to and including `root`
pub fn all_hashes(t: &Tree, root: Tid) -> Vec<[u8; 32]> {
    let mut out: Vec<[u8; 32]> = Vec::with_capacity(root as usize + 1);
    for i in 0..=root as usize {
        let h = match &t.nodes[i] {
            TNode::Atom(b) => hash_atom(b),
            TNode::Pair(l, r) => hash_pair(&out[*l as usize], &out[*r as usize]),
        };
        out.push(h);
    }
    out
}

pub fn tree_hash(t: &Tree, root: Tid) -> [u8; 32] {
    all_hashes(t, root)[root as usize]
}

/// `(a (q . program) (c (q . arg1) (c (q . arg2) ... 1)))`
pub fn curry(t: &mut Tree, program: Tid, args: &[Tid]) -> Tid {
    let one = t.atom(&[1]);
    let mut acc = t.atom(&[1]);
    for a in args.iter().rev() {
        // (c (q . arg) acc)
        let q = t.atom(&[1]);
        let quoted = t.pair(q, *a);
        let c = t.atom(&[4]);
        acc = t.list(&[c, quoted, acc]);
    }
    let quoted_prog = t.pair(one, program);
    let two = t.atom(&[2]);
    t.list(&[two, quoted_prog, acc])
}
