//! Reference models. None of them calls the code under test.
pub mod conditions;
pub mod int;
pub mod treehash;
