//! Canonical CLVM integers by arithmetic (no threshold ladder).
//!
//! The canonical form of an integer is its minimal big-endian two's-complement
//! byte string; zero is the empty string.

use num_bigint::{BigInt, Sign};

/// minimal big-endian two's complement of a non-negative value
pub fn enc_u128(mut v: u128) -> Vec<u8> {
    let mut out = Vec::new();
    while v > 0 {
        out.push((v & 0xff) as u8);
        v >>= 8;
    }
    if let Some(top) = out.last() {
        if top & 0x80 != 0 {
            out.push(0);
        }
    }
    out.reverse();
    out
}

pub fn enc_u64(v: u64) -> Vec<u8> {
    enc_u128(u128::from(v))
}

/// minimal big-endian two's complement of a signed value
pub fn enc_i128(v: i128) -> Vec<u8> {
    if v >= 0 {
        return enc_u128(v as u128);
    }
    // smallest n with v >= -(2^(8n-1))
    let mut n = 1usize;
    loop {
        if n >= 16 {
            break;
        }
        let lo: i128 = -(1i128 << (8 * n - 1));
        if v >= lo {
            break;
        }
        n += 1;
    }
    let raw = (v as u128).to_be_bytes();
    raw[16 - n..].to_vec()
}

/// the value of an arbitrary atom read as big-endian two's complement
pub fn atom_value(atom: &[u8]) -> BigInt {
    if atom.is_empty() {
        BigInt::from(0)
    } else {
        BigInt::from_signed_bytes_be(atom)
    }
}

pub fn enc_bigint(v: &BigInt) -> Vec<u8> {
    if v.sign() == Sign::NoSign {
        vec![]
    } else {
        v.to_signed_bytes_be()
    }
}

/// serialized CLVM length of an atom
pub fn serialized_atom_len(atom: &[u8]) -> usize {
    let n = atom.len();
    if n == 0 {
        1
    } else if n == 1 && atom[0] < 0x80 {
        1
    } else if n < 0x40 {
        1 + n
    } else if n < 0x2000 {
        2 + n
    } else if n < 0x10_0000 {
        3 + n
    } else if n < 0x800_0000 {
        4 + n
    } else {
        5 + n
    }
}

#[derive(Debug, Clone, PartialEq, Eq)]
pub enum UintClass {
    /// canonical non-negative value that fits the width
    Ok(u64),
    /// not the canonical encoding of its value (redundant leading zero)
    NonCanonical,
    /// top bit set: a negative number
    Negative,
    /// canonical, non-negative, but needs more than `width` bytes
    TooLarge,
}

/// classify an atom as a condition integer of `width` bytes (width ≤ 8) by
/// arithmetic on its value, per the rule: negative numbers are "negative
/// overflow"; anything that is not the minimal encoding of its value is
/// invalid; values ≥ 2^(8·width) are "positive overflow".
pub fn classify_uint(atom: &[u8], width: usize) -> UintClass {
    if !atom.is_empty() && atom[0] & 0x80 != 0 {
        return UintClass::Negative;
    }
    let v = atom_value(atom);
    if enc_bigint(&v) != atom {
        return UintClass::NonCanonical;
    }
    let limit = BigInt::from(1) << (8 * width);
    if v >= limit {
        return UintClass::TooLarge;
    }
    let (_, digits) = v.to_u64_digits();
    UintClass::Ok(digits.first().copied().unwrap_or(0))
}

#[cfg(test)]
mod tests {
    use super::*;
    #[test]
    fn basics() {
        assert_eq!(enc_u64(0), Vec::<u8>::new());
        assert_eq!(enc_u64(0x7f), vec![0x7f]);
        assert_eq!(enc_u64(0x80), vec![0, 0x80]);
        assert_eq!(enc_u64(u64::MAX), vec![0, 255, 255, 255, 255, 255, 255, 255, 255]);
        assert_eq!(enc_i128(-1), vec![0xff]);
        assert_eq!(enc_i128(-128), vec![0x80]);
        assert_eq!(enc_i128(-129), vec![0xff, 0x7f]);
        assert_eq!(enc_i128(i128::MIN).len(), 16);
        assert_eq!(classify_uint(&[0], 8), UintClass::NonCanonical);
        assert_eq!(classify_uint(&[0, 0x80], 8), UintClass::Ok(0x80));
        assert_eq!(classify_uint(&[0, 0x7f], 8), UintClass::NonCanonical);
        assert_eq!(classify_uint(&[0x80], 8), UintClass::Negative);
        assert_eq!(classify_uint(&[1, 0, 0, 0, 0], 4), UintClass::TooLarge);
        assert_eq!(classify_uint(&[0, 0xff, 0xff, 0xff, 0xff], 4), UintClass::Ok(0xffff_ffff));
    }
}

/// helper for macros over every integer type
pub fn enc_i128_or_u128(s: i128, u: u128, signed: bool) -> Vec<u8> {
    if signed {
        enc_i128(s)
    } else {
        enc_u128(u)
    }
}
