//! vcore: engine, choice-sequence source, shared generators and reference models.
pub mod condgen;
pub mod engine;
pub mod gentree;
pub mod model;
pub mod proglevel;
pub mod src;

pub use engine::{CaseResult, Ctx, Failure, Property, Source, SubCheck, Tier};
pub use src::{fnv, Fnv, Src};
