//! The choice sequence: every generated case is a pure function of a byte
//! string.  `Src` hands out choices; when the bytes run dry it yields zeros,
//! which by convention select the *simplest* alternative everywhere.
//!
//! Index choices are mapped monotonically (`v * n >> bits`), never with `%`,
//! so that lowering a byte never makes a choice "more complex" — this is what
//! lets proptest's byte-vector shrinking converge.

pub struct Src<'a> {
    data: &'a [u8],
    pos: usize,
    dry: bool,
}

impl<'a> Src<'a> {
    pub fn new(data: &'a [u8]) -> Self {
        Self {
            data,
            pos: 0,
            dry: false,
        }
    }

    /// true once a choice was requested after the bytes ran out
    pub fn ran_dry(&self) -> bool {
        self.dry
    }

    pub fn remaining(&self) -> usize {
        self.data.len().saturating_sub(self.pos)
    }

    pub fn consumed(&self) -> usize {
        self.pos.min(self.data.len())
    }

    pub fn u8(&mut self) -> u8 {
        if self.pos < self.data.len() {
            let v = self.data[self.pos];
            self.pos += 1;
            v
        } else {
            self.dry = true;
            0
        }
    }

    pub fn u16(&mut self) -> u16 {
        (u16::from(self.u8()) << 8) | u16::from(self.u8())
    }

    pub fn u32(&mut self) -> u32 {
        (u32::from(self.u16()) << 16) | u32::from(self.u16())
    }

    pub fn u64(&mut self) -> u64 {
        (u64::from(self.u32()) << 32) | u64::from(self.u32())
    }

    pub fn u128(&mut self) -> u128 {
        (u128::from(self.u64()) << 64) | u128::from(self.u64())
    }

    pub fn bool(&mut self) -> bool {
        self.u8() >= 128
    }

    /// true with probability ~ num/256 (0 ⇒ never). byte 0 ⇒ false.
    pub fn chance(&mut self, num: u16) -> bool {
        let b = u16::from(self.u8());
        // high bytes select "true": keeps 0 = simplest (false)
        b >= 256u16.saturating_sub(num)
    }

    /// uniform index in 0..n (n ≥ 1), monotone in the underlying byte(s); 0 ⇒ 0
    pub fn below(&mut self, n: usize) -> usize {
        debug_assert!(n >= 1);
        if n <= 1 {
            return 0;
        }
        if n <= 256 {
            (usize::from(self.u8()) * n) >> 8
        } else if n <= 65536 {
            (usize::from(self.u16()) * n) >> 16
        } else {
            ((u64::from(self.u32()) * n as u64) >> 32) as usize
        }
    }

    /// inclusive range
    pub fn range(&mut self, lo: usize, hi: usize) -> usize {
        debug_assert!(hi >= lo);
        lo + self.below(hi - lo + 1)
    }

    /// pick an index according to integer weights; index 0 is the simplest.
    pub fn weighted(&mut self, weights: &[u32]) -> usize {
        let total: u64 = weights.iter().map(|w| u64::from(*w)).sum();
        debug_assert!(total > 0);
        let r = (u64::from(self.u16()) * total) >> 16;
        let mut acc = 0u64;
        for (i, w) in weights.iter().enumerate() {
            acc += u64::from(*w);
            if r < acc {
                return i;
            }
        }
        weights.len() - 1
    }

    pub fn pick<'b, T>(&mut self, items: &'b [T]) -> &'b T {
        &items[self.below(items.len())]
    }

    pub fn bytes(&mut self, n: usize) -> Vec<u8> {
        (0..n).map(|_| self.u8()).collect()
    }

    pub fn array<const N: usize>(&mut self) -> [u8; N] {
        let mut r = [0u8; N];
        for b in &mut r {
            *b = self.u8();
        }
        r
    }

    /// Hand the *rest* of the bytes to `arbitrary::Unstructured` (used for the
    /// `Arbitrary` impls that chia-protocol derives). Consumes everything.
    pub fn unstructured(&mut self) -> arbitrary::Unstructured<'a> {
        let rest = if self.pos < self.data.len() {
            &self.data[self.pos..]
        } else {
            &self.data[0..0]
        };
        self.pos = self.data.len();
        arbitrary::Unstructured::new(rest)
    }

    /// split off the next `n` bytes as an independent sub-source (so that a
    /// sub-generator consuming a variable amount does not shift everything
    /// that follows — helps shrinking and libFuzzer mutation locality)
    pub fn sub(&mut self, n: usize) -> Src<'a> {
        let start = self.pos.min(self.data.len());
        let end = (start + n).min(self.data.len());
        self.pos = start + n;
        Src::new(&self.data[start..end])
    }
}

/// 64-bit FNV-1a, used for case fingerprints (deterministic across runs)
#[derive(Clone)]
pub struct Fnv(pub u64);

impl Default for Fnv {
    fn default() -> Self {
        Fnv(0xcbf2_9ce4_8422_2325)
    }
}

impl Fnv {
    pub fn new() -> Self {
        Self::default()
    }
    pub fn write(&mut self, bytes: &[u8]) -> &mut Self {
        for b in bytes {
            self.0 ^= u64::from(*b);
            self.0 = self.0.wrapping_mul(0x0000_0100_0000_01b3);
        }
        self
    }
    pub fn write_u64(&mut self, v: u64) -> &mut Self {
        self.write(&v.to_le_bytes())
    }
    pub fn finish(&self) -> u64 {
        // final avalanche (fnv alone is weak in the high bits)
        let mut x = self.0;
        x ^= x >> 33;
        x = x.wrapping_mul(0xff51_afd7_ed55_8ccd);
        x ^= x >> 33;
        x = x.wrapping_mul(0xc4ce_b9fe_1a85_ec53);
        x ^= x >> 33;
        x
    }
}

pub fn fnv(bytes: &[u8]) -> u64 {
    let mut f = Fnv::new();
    f.write(bytes);
    f.finish()
}
