//! The engine shared by every property binary.
//!
//! A property is a list of sub-checks. A sub-check is a *case function*
//! `fn(&[u8], &mut Ctx) -> CaseResult` (generator + oracle: the bytes are the
//! choice sequence, see `src.rs`) plus a *source* of byte strings: proptest
//! (random, shrinking) or a deterministic enumerator (bounded-exhaustive
//! sub-domains). libFuzzer drives the very same case functions from
//! `/verif/fuzz`.
//!
//! Exit codes: 0 = property held on everything explored; 1 = violation (a
//! `VIOLATION property=<id> replay=<path>` line was printed); 2 = the
//! harness itself is broken / inconclusive (never a violation).

use std::borrow::Cow;
use std::cell::RefCell;
use std::collections::{BTreeMap, HashSet};
use std::io::Write;
use std::os::unix::fs::FileExt;
use std::panic::{self, AssertUnwindSafe};
use std::path::{Path, PathBuf};
use std::sync::atomic::{AtomicBool, AtomicU64, Ordering};
use std::sync::{Arc, Mutex};
use std::time::Instant;

use proptest::test_runner::{Config, RngSeed, TestCaseError, TestError, TestRunner};
use serde_json::{json, Value};

pub const NSHARDS: usize = 16;

#[derive(Clone, Copy, PartialEq, Eq, Debug)]
pub enum Tier {
    Quick,
    Thorough,
}

impl Tier {
    pub fn name(self) -> &'static str {
        match self {
            Tier::Quick => "quick",
            Tier::Thorough => "thorough",
        }
    }
}

#[derive(Debug, Clone)]
pub struct Failure {
    /// oracle-produced signature: identifies *what* failed (root cause class),
    /// not the input. Known findings are keyed on it.
    pub sig: String,
    pub msg: String,
}

pub type CaseResult = Result<(), Failure>;

pub fn fail<T>(sig: impl Into<String>, msg: impl Into<String>) -> Result<T, Failure> {
    Err(Failure {
        sig: sig.into(),
        msg: msg.into(),
    })
}

#[macro_export]
macro_rules! vfail {
    ($sig:expr, $($arg:tt)*) => {
        return Err($crate::engine::Failure { sig: ($sig).to_string(), msg: format!($($arg)*) })
    };
}

#[macro_export]
macro_rules! vensure {
    ($cond:expr, $sig:expr, $($arg:tt)*) => {
        if !($cond) {
            return Err($crate::engine::Failure { sig: ($sig).to_string(), msg: format!($($arg)*) });
        }
    };
}

#[macro_export]
macro_rules! vensure_eq {
    ($a:expr, $b:expr, $sig:expr, $($arg:tt)*) => {
        {
            let (a, b) = (&$a, &$b);
            if a != b {
                return Err($crate::engine::Failure {
                    sig: ($sig).to_string(),
                    msg: format!("{}: left = {:?}, right = {:?}", format!($($arg)*), a, b),
                });
            }
        }
    };
}

/// per-case context handed to the case function
pub struct Ctx {
    pub tier: Tier,
    /// strict mode (replay): known findings are *not* excluded
    pub strict: bool,
    render_wanted: bool,
    labels: Vec<Cow<'static, str>>,
    nontrivial: Option<u64>,
    render: Option<String>,
    discard: bool,
    dry: bool,
    inner: u64,
    known: Arc<Vec<String>>,
}

impl Ctx {
    fn new(tier: Tier, strict: bool, render_wanted: bool, known: Arc<Vec<String>>) -> Self {
        Self {
            tier,
            strict,
            render_wanted,
            labels: Vec::new(),
            nontrivial: None,
            render: None,
            discard: false,
            dry: false,
            inner: 0,
            known,
        }
    }
    /// a case that is a *block* of `n` elementary evaluations (exhaustive
    /// sweeps batch values so that the engine overhead and the fingerprint set
    /// stay bounded); reported as coverage.inner_evaluations
    pub fn add_inner(&mut self, n: u64) {
        self.inner += n;
    }
    /// classify the case (label histogram ends up in the evidence)
    pub fn label(&mut self, l: impl Into<Cow<'static, str>>) {
        self.labels.push(l.into());
    }
    /// mark the case non-trivial by the property's stated rule; `fp` is the
    /// fingerprint of the *decoded case* used for distinctness
    pub fn nontrivial(&mut self, fp: u64) {
        self.nontrivial = Some(fp);
    }
    /// the engine wants a human-readable rendering of this case
    pub fn want_render(&self) -> bool {
        self.render_wanted
    }
    pub fn render(&mut self, s: impl FnOnce() -> String) {
        if self.render_wanted {
            self.render = Some(s());
        }
    }
    /// the generated case is outside the property's domain
    pub fn discard(&mut self) {
        self.discard = true;
    }
    pub fn ran_dry(&mut self, dry: bool) {
        self.dry |= dry;
    }
    /// is this signature a listed known finding (and we are not in strict mode)?
    /// lets a case function *continue past* a known defect instead of failing.
    pub fn is_known(&self, sig: &str) -> bool {
        !self.strict && self.known.iter().any(|k| k == sig)
    }
    /// report a failure unless it is a listed known finding, in which case it is
    /// counted and the case continues
    pub fn known_or_fail(&mut self, sig: &str, msg: impl FnOnce() -> String) -> CaseResult {
        if self.is_known(sig) {
            self.labels.push(Cow::Owned(format!("excluded-known:{sig}")));
            Ok(())
        } else {
            Err(Failure {
                sig: sig.to_string(),
                msg: msg(),
            })
        }
    }
}

pub type CaseFn = fn(&[u8], &mut Ctx) -> CaseResult;
/// enumerator: emit every case of the shard (`shard` of `nshards`); `emit`
/// returns false when the engine wants the enumeration to stop.
pub type EnumFn = fn(Tier, usize, usize, &mut dyn FnMut(&[u8]) -> bool);

pub enum Source {
    /// proptest-driven random byte vectors of at most `len` bytes
    Random {
        len: usize,
        quick: u64,
        thorough: u64,
    },
    /// deterministic enumeration of a finite sub-domain
    Enumerate { f: EnumFn, exhaustive: bool },
}

pub struct SubCheck {
    pub name: &'static str,
    pub about: &'static str,
    pub source: Source,
    pub run: CaseFn,
    /// record in-flight bytes before each case (for post-mortem of aborts)
    pub inflight: bool,
    /// non-vacuity floor: minimum distinct non-trivial cases in the quick tier
    pub min_nontrivial: u64,
    /// labels that must each occur at least once (non-vacuity)
    pub required_labels: &'static [&'static str],
}

pub struct Property {
    pub id: &'static str,
    pub rule: &'static str,
    pub assumptions: &'static [&'static str],
    pub subchecks: Vec<SubCheck>,
    /// a process death (signal) while a case is in flight is a violation of
    /// the property itself (totality properties), not merely inconclusive
    pub death_is_violation: bool,
}

// ---------------------------------------------------------------------------
// panic capture

thread_local! {
    static LAST_PANIC: RefCell<Option<(String, String)>> = const { RefCell::new(None) };
    static QUIET: RefCell<bool> = const { RefCell::new(false) };
}

/// panics on the calling thread are recorded but not printed (for helper threads
/// that re-run a known-to-panic operation on purpose)
pub fn quiet_panics_on_this_thread() {
    QUIET.with(|q| *q.borrow_mut() = true);
}

pub fn install_panic_hook() {
    let default = panic::take_hook();
    panic::set_hook(Box::new(move |info| {
        let loc = info
            .location()
            .map(|l| {
                let f = l.file();
                let base = f.rsplit('/').next().unwrap_or(f);
                // workspace members of the harness are compiled with relative
                // paths; the code under test (/repo/…), the registry and std
                // have absolute ones
                if f.starts_with('/') {
                    base.to_string()
                } else {
                    format!("HARNESS/{f}")
                }
            })
            .unwrap_or_else(|| "?".into());
        let msg = if let Some(s) = info.payload().downcast_ref::<&str>() {
            (*s).to_string()
        } else if let Some(s) = info.payload().downcast_ref::<String>() {
            s.clone()
        } else {
            "<non-string panic>".to_string()
        };
        let quiet = QUIET.with(|q| *q.borrow());
        LAST_PANIC.with(|p| *p.borrow_mut() = Some((loc, msg)));
        if !quiet {
            default(info);
        }
    }));
}

fn sanitize_sig(s: &str) -> String {
    let mut out = String::new();
    for c in s.chars().take(80) {
        if c.is_ascii_alphanumeric() || "_-.:'".contains(c) {
            out.push(c);
        } else if c == ' ' {
            out.push('_');
        }
    }
    out
}

/// run one case under catch_unwind; a panic becomes a Failure with signature
/// `panic:<file>:<message prefix>`
pub fn run_case(run: CaseFn, bytes: &[u8], ctx: &mut Ctx) -> CaseResult {
    QUIET.with(|q| *q.borrow_mut() = true);
    LAST_PANIC.with(|p| *p.borrow_mut() = None);
    let r = panic::catch_unwind(AssertUnwindSafe(|| run(bytes, ctx)));
    QUIET.with(|q| *q.borrow_mut() = false);
    match r {
        Ok(r) => r,
        Err(_) => {
            let (loc, msg) = LAST_PANIC
                .with(|p| p.borrow_mut().take())
                .unwrap_or_else(|| ("?".into(), "?".into()));
            if let Some(own) = loc.strip_prefix("HARNESS/") {
                return Err(Failure {
                    sig: format!("harness-panic:{}:{}", own.replace('/', "_"), sanitize_sig(&msg)),
                    msg: format!("the harness itself panicked at {own}: {msg}"),
                });
            }
            Err(Failure {
                sig: format!("panic:{}:{}", loc, sanitize_sig(&msg)),
                msg: format!("panic at {loc}: {msg}"),
            })
        }
    }
}

// ---------------------------------------------------------------------------
// known findings

#[derive(Debug, Clone)]
pub struct KnownFinding {
    pub property: String,
    pub signature: String,
    pub reproducer: Option<String>,
    pub what: String,
}

pub fn verif_root() -> PathBuf {
    if let Ok(p) = std::env::var("VERIF_ROOT") {
        return PathBuf::from(p);
    }
    PathBuf::from("/verif")
}

pub fn load_known_findings(property: &str) -> Vec<KnownFinding> {
    let p = std::env::var("VERIF_KNOWN_FINDINGS")
        .map(PathBuf::from)
        .unwrap_or_else(|_| verif_root().join("known_findings.json"));
    let Ok(text) = std::fs::read_to_string(&p) else {
        return vec![];
    };
    let v: Value = match serde_json::from_str(&text) {
        Ok(v) => v,
        Err(e) => {
            eprintln!("HARNESS-ERROR: known_findings.json does not parse: {e}");
            std::process::exit(2);
        }
    };
    let mut out = vec![];
    if let Some(arr) = v.get("findings").and_then(|f| f.as_array()) {
        for f in arr {
            let prop = f.get("property").and_then(Value::as_str).unwrap_or("");
            if prop != property {
                continue;
            }
            out.push(KnownFinding {
                property: prop.to_string(),
                signature: f
                    .get("signature")
                    .and_then(Value::as_str)
                    .unwrap_or("")
                    .to_string(),
                reproducer: f
                    .get("reproducer")
                    .and_then(Value::as_str)
                    .map(str::to_string),
                what: f
                    .get("what")
                    .and_then(Value::as_str)
                    .unwrap_or("")
                    .to_string(),
            });
        }
    }
    out
}

// ---------------------------------------------------------------------------
// replay files

#[derive(Debug, Clone)]
pub struct Replay {
    pub property: String,
    pub subcheck: String,
    pub bytes: Vec<u8>,
}

pub fn read_replay(path: &Path) -> Result<Replay, String> {
    let text = std::fs::read_to_string(path).map_err(|e| format!("{}: {e}", path.display()))?;
    let v: Value = serde_json::from_str(&text).map_err(|e| format!("{}: {e}", path.display()))?;
    let hexs = v
        .get("bytes_hex")
        .and_then(Value::as_str)
        .ok_or("no bytes_hex")?;
    Ok(Replay {
        property: v
            .get("property")
            .and_then(Value::as_str)
            .unwrap_or("")
            .to_string(),
        subcheck: v
            .get("subcheck")
            .and_then(Value::as_str)
            .unwrap_or("")
            .to_string(),
        bytes: hex::decode(hexs).map_err(|e| format!("bytes_hex: {e}"))?,
    })
}

fn write_replay(
    prop: &str,
    sub: &str,
    bytes: &[u8],
    failure: &Failure,
    rendering: Option<&str>,
    origin: &str,
) -> PathBuf {
    let dir = verif_root().join("replays").join(prop);
    let _ = std::fs::create_dir_all(&dir);
    let h = crate::src::fnv(bytes);
    let name = format!("{}-{}-{:016x}.json", sub, sanitize_sig(&failure.sig).replace(':', "_"), h);
    let path = dir.join(name);
    let v = json!({
        "property": prop,
        "subcheck": sub,
        "signature": failure.sig,
        "message": failure.msg,
        "origin": origin,
        "bytes_hex": hex::encode(bytes),
        "rendering": rendering,
    });
    let _ = std::fs::write(&path, serde_json::to_string_pretty(&v).unwrap());
    path
}

// ---------------------------------------------------------------------------
// statistics

#[derive(Default)]
struct Stats {
    evaluations: u64,
    discarded: u64,
    ran_dry: u64,
    inner: u64,
    labels: BTreeMap<String, u64>,
    nontrivial: HashSet<u64>,
    excluded: BTreeMap<String, u64>,
    samples: Vec<String>,
}

impl Stats {
    fn merge(&mut self, o: Stats) {
        self.evaluations += o.evaluations;
        self.discarded += o.discarded;
        self.ran_dry += o.ran_dry;
        self.inner += o.inner;
        for (k, v) in o.labels {
            *self.labels.entry(k).or_default() += v;
        }
        self.nontrivial.extend(o.nontrivial);
        for (k, v) in o.excluded {
            *self.excluded.entry(k).or_default() += v;
        }
        for s in o.samples {
            if self.samples.len() < 6 {
                self.samples.push(s);
            }
        }
    }
}

struct FoundFailure {
    bytes: Vec<u8>,
    failure: Failure,
    origin: String,
}

struct ShardEnv<'a> {
    prop: &'a Property,
    sub: &'a SubCheck,
    tier: Tier,
    known: Arc<Vec<String>>,
    stop: &'a AtomicBool,
    inflight: Option<std::fs::File>,
    heartbeat: &'a AtomicU64,
    t0: Instant,
    dump_dir: Option<PathBuf>,
}

impl ShardEnv<'_> {
    /// evaluate one case, update stats; Ok(()) = pass/excluded/discard
    fn eval(&mut self, bytes: &[u8], stats: &mut Stats, counting: bool) -> CaseResult {
        if let Some(f) = &self.inflight {
            let mut buf = Vec::with_capacity(bytes.len() + 8);
            buf.extend_from_slice(&(bytes.len() as u64).to_le_bytes());
            buf.extend_from_slice(bytes);
            let _ = f.write_all_at(&buf, 0);
        }
        self.heartbeat
            .store(self.t0.elapsed().as_millis() as u64 + 1, Ordering::Relaxed);
        let want_sample = counting && stats.samples.len() < 2;
        let mut ctx = Ctx::new(self.tier, false, false, self.known.clone());
        let r = run_case(self.sub.run, bytes, &mut ctx);
        self.heartbeat.store(0, Ordering::Relaxed);
        let r = match r {
            Err(f) if self.known.iter().any(|k| *k == f.sig) => {
                if counting {
                    *stats.excluded.entry(f.sig.clone()).or_default() += 1;
                }
                Ok(())
            }
            other => other,
        };
        if counting {
            stats.evaluations += 1;
            stats.inner += ctx.inner;
            if ctx.discard {
                stats.discarded += 1;
            }
            if ctx.dry {
                stats.ran_dry += 1;
            }
            for l in &ctx.labels {
                if let Some(sig) = l.strip_prefix("excluded-known:") {
                    *stats.excluded.entry(sig.to_string()).or_default() += 1;
                } else {
                    *stats.labels.entry(l.to_string()).or_default() += 1;
                }
            }
            if r.is_ok() && !ctx.discard {
                if let Some(fp) = ctx.nontrivial {
                    let fresh = stats.nontrivial.insert(fp);
                    if fresh {
                        // optional: dump the bytes of the first non-trivial cases as a
                        // libFuzzer seed corpus (VERIF_DUMP_CORPUS=<dir>)
                        if let Some(dir) = &self.dump_dir {
                            if stats.nontrivial.len() <= 64 {
                                let p = dir.join(format!("{}-{:016x}", self.sub.name, crate::src::fnv(bytes)));
                                let _ = std::fs::write(p, bytes);
                            }
                        }
                    }
                    if fresh && want_sample {
                        // re-run to obtain a rendering of this non-trivial case
                        let mut c2 = Ctx::new(self.tier, false, true, self.known.clone());
                        let _ = run_case(self.sub.run, bytes, &mut c2);
                        if let Some(s) = c2.render {
                            stats.samples.push(format!("[{}] {}", self.sub.name, s));
                        }
                    }
                }
            }
        }
        r
    }
}

fn derive_seed(seed: u64, prop: &str, sub: &str, shard: usize) -> u64 {
    let mut f = crate::src::Fnv::new();
    f.write_u64(seed)
        .write(prop.as_bytes())
        .write(b"/")
        .write(sub.as_bytes())
        .write_u64(shard as u64);
    f.finish()
}

fn run_shard(
    env: &mut ShardEnv<'_>,
    seed: u64,
    shard: usize,
    cases_scale: f64,
) -> (Stats, Option<FoundFailure>) {
    let mut stats = Stats::default();
    let mut found: Option<FoundFailure> = None;
    match &env.sub.source {
        Source::Random {
            len,
            quick,
            thorough,
        } => {
            let total = match env.tier {
                Tier::Quick => *quick,
                Tier::Thorough => *thorough,
            };
            let total = ((total as f64) * cases_scale).ceil() as u64;
            let mut cases = total / NSHARDS as u64;
            if (shard as u64) < total % NSHARDS as u64 {
                cases += 1;
            }
            if cases == 0 {
                return (stats, None);
            }
            let cfg = Config {
                cases: cases as u32,
                rng_seed: RngSeed::Fixed(derive_seed(seed, env.prop.id, env.sub.name, shard)),
                failure_persistence: None,
                max_shrink_iters: 20_000,
                // shrinking is bounded in wall-clock time as well: it only
                // affects how small the replay file gets, never the verdict
                max_shrink_time: 90_000,
                max_global_rejects: u32::MAX,
                verbose: 0,
                ..Config::default()
            };
            let mut runner = TestRunner::new(cfg);
            let lo = len / 8;
            let strat = proptest::collection::vec(proptest::arbitrary::any::<u8>(), lo..=*len);
            // counting stops at the first failure: proptest re-runs the closure
            // while shrinking
            let failed = std::cell::Cell::new(false);
            let stats_cell = RefCell::new(&mut stats);
            let env_cell = RefCell::new(&mut *env);
            let first_fail: RefCell<Option<Failure>> = RefCell::new(None);
            let last_fail: RefCell<Option<Failure>> = RefCell::new(None);
            let result = runner.run(&strat, |bytes| {
                let mut env = env_cell.borrow_mut();
                if !failed.get() && env.stop.load(Ordering::Relaxed) {
                    // another shard failed: finish quickly (cases pass trivially,
                    // not counted)
                    return Ok(());
                }
                let counting = !failed.get();
                let mut st = stats_cell.borrow_mut();
                match env.eval(&bytes, &mut st, counting) {
                    Ok(()) => Ok(()),
                    Err(f) => {
                        if !failed.get() {
                            failed.set(true);
                            *first_fail.borrow_mut() = Some(f.clone());
                        } else if first_fail.borrow().as_ref().map(|x| &x.sig) != Some(&f.sig) {
                            // while shrinking, stay on the same signature so
                            // that the minimal case reproduces *that* failure
                            return Ok(());
                        }
                        *last_fail.borrow_mut() = Some(f.clone());
                        Err(TestCaseError::fail(f.sig))
                    }
                }
            });
            if let Err(e) = result {
                match e {
                    TestError::Fail(_, bytes) => {
                        // re-run the minimal case for its message
                        let mut ctx = Ctx::new(env.tier, false, false, env.known.clone());
                        let failure = match run_case(env.sub.run, &bytes, &mut ctx) {
                            Err(f) => f,
                            Ok(()) => last_fail.borrow().clone().unwrap_or(Failure {
                                sig: "unreproducible".into(),
                                msg: "shrunk case did not reproduce".into(),
                            }),
                        };
                        found = Some(FoundFailure {
                            bytes,
                            failure,
                            origin: format!("proptest shard {shard}"),
                        });
                    }
                    TestError::Abort(r) => {
                        eprintln!("HARNESS-ERROR: proptest aborted: {r}");
                        std::process::exit(2);
                    }
                }
            }
        }
        Source::Enumerate { f, .. } => {
            let mut ff: Option<FoundFailure> = None;
            let stop = env.stop;
            let tier = env.tier;
            let mut emit = |bytes: &[u8]| -> bool {
                if stop.load(Ordering::Relaxed) {
                    return false;
                }
                match env.eval(bytes, &mut stats, true) {
                    Ok(()) => true,
                    Err(failure) => {
                        ff = Some(FoundFailure {
                            bytes: bytes.to_vec(),
                            failure,
                            origin: format!("enumeration shard {shard}"),
                        });
                        false
                    }
                }
            };
            f(tier, shard, NSHARDS, &mut emit);
            found = ff;
        }
    }
    (stats, found)
}

/// deterministic post-pass after proptest's shrinking: try truncations and
/// zeroing blocks while the *same signature* keeps failing.
fn post_shrink(sub: &SubCheck, tier: Tier, known: &Arc<Vec<String>>, ff: &mut FoundFailure) {
    let sig = ff.failure.sig.clone();
    let still_fails = |b: &[u8]| -> Option<Failure> {
        let mut ctx = Ctx::new(tier, false, false, known.clone());
        match run_case(sub.run, b, &mut ctx) {
            Err(f) if f.sig == sig => Some(f),
            _ => None,
        }
    };
    let mut budget = 3000usize;
    let deadline = std::time::Instant::now() + std::time::Duration::from_secs(90);
    // strip trailing zeros (they are implied for `Src`; generators that hand the
    // tail to `arbitrary::Unstructured` read lengths from the end, so verify)
    {
        let mut cand = ff.bytes.clone();
        while cand.last() == Some(&0) {
            cand.pop();
        }
        if cand.len() != ff.bytes.len() {
            if let Some(f) = still_fails(&cand) {
                ff.bytes = cand;
                ff.failure = f;
            }
        }
    }
    let mut improved = true;
    while improved && budget > 0 {
        if std::time::Instant::now() > deadline {
            break;
        }
        improved = false;
        // truncate
        let mut cut = ff.bytes.len() / 2;
        while cut >= 1 && budget > 0 {
            if std::time::Instant::now() > deadline {
                budget = 0;
                break;
            }
            if ff.bytes.len() > cut {
                let cand = ff.bytes[..ff.bytes.len() - cut].to_vec();
                budget -= 1;
                if let Some(f) = still_fails(&cand) {
                    ff.bytes = cand;
                    ff.failure = f;
                    improved = true;
                    continue;
                }
            }
            cut /= 2;
        }
        // zero blocks
        for blk in [16usize, 4, 1] {
            let mut i = 0;
            while i < ff.bytes.len() && budget > 0 {
                if std::time::Instant::now() > deadline {
                    budget = 0;
                    break;
                }
                let end = (i + blk).min(ff.bytes.len());
                if ff.bytes[i..end].iter().any(|b| *b != 0) {
                    let mut cand = ff.bytes.clone();
                    for b in &mut cand[i..end] {
                        *b = 0;
                    }
                    budget -= 1;
                    if let Some(f) = still_fails(&cand) {
                        ff.bytes = cand;
                        ff.failure = f;
                        improved = true;
                    }
                }
                i += blk;
            }
        }
        let mut cand = ff.bytes.clone();
        while cand.last() == Some(&0) {
            cand.pop();
        }
        if cand.len() != ff.bytes.len() {
            if let Some(f) = still_fails(&cand) {
                ff.bytes = cand;
                ff.failure = f;
            }
        }
    }
}

fn render_case(sub: &SubCheck, tier: Tier, known: &Arc<Vec<String>>, bytes: &[u8]) -> Option<String> {
    let mut ctx = Ctx::new(tier, true, true, known.clone());
    let _ = run_case(sub.run, bytes, &mut ctx);
    ctx.render
}

// ---------------------------------------------------------------------------
// libFuzzer entry: the fuzz targets in /verif/fuzz hand their input to the very
// same case functions

/// Run one libFuzzer input through a case function. A failure that is not a
/// listed known finding writes a replay file and panics (libFuzzer then saves
/// the crashing input as an artifact); known findings are tolerated so that a
/// campaign keeps searching behind them. `VERIF_STRICT=1` disables the
/// tolerance.
pub fn fuzz_one(property: &'static str, subcheck: &'static str, run: CaseFn, data: &[u8]) {
    use std::sync::OnceLock;
    static KNOWN: OnceLock<Arc<Vec<String>>> = OnceLock::new();
    static HOOK: OnceLock<()> = OnceLock::new();
    HOOK.get_or_init(install_panic_hook);
    let strict = std::env::var("VERIF_STRICT").map(|v| v == "1").unwrap_or(false);
    let known = KNOWN
        .get_or_init(|| {
            if strict {
                Arc::new(vec![])
            } else {
                Arc::new(load_known_findings(property).into_iter().map(|k| k.signature).collect())
            }
        })
        .clone();
    let mut ctx = Ctx::new(Tier::Thorough, strict, false, known.clone());
    match run_case(run, data, &mut ctx) {
        Ok(()) => {}
        Err(f) => {
            if known.iter().any(|k| *k == f.sig) {
                return;
            }
            let rendering = {
                let mut c2 = Ctx::new(Tier::Thorough, true, true, Arc::new(vec![]));
                let _ = run_case(run, data, &mut c2);
                c2.render
            };
            let path = write_replay(property, subcheck, data, &f, rendering.as_deref(), "libFuzzer");
            eprintln!("FUZZ-FAILURE property={property} subcheck={subcheck} signature={} replay={}", f.sig, path.display());
            eprintln!("  {}", f.msg);
            QUIET.with(|q| *q.borrow_mut() = false);
            std::process::abort();
        }
    }
}

// ---------------------------------------------------------------------------
// main entry

fn usage(id: &str) -> ! {
    eprintln!("usage: {id} <quick|thorough> [--sub <name>] [--scale <f>] | --replay <file> | --list");
    std::process::exit(2);
}

pub fn seed_from_env() -> u64 {
    std::env::var("VERIF_SEED")
        .ok()
        .and_then(|s| s.trim().parse::<i128>().ok())
        .map(|v| v as u64)
        .unwrap_or(1)
}

/// Replay one file strictly. Returns Ok(None) on pass, Ok(Some(failure)) on fail.
pub fn replay_file(prop: &Property, path: &Path) -> Result<Option<(Failure, Option<String>)>, String> {
    let rp = read_replay(path)?;
    let sub = prop
        .subchecks
        .iter()
        .find(|s| s.name == rp.subcheck)
        .ok_or_else(|| format!("replay {}: unknown subcheck {}", path.display(), rp.subcheck))?;
    let known: Arc<Vec<String>> = Arc::new(vec![]);
    let mut ctx = Ctx::new(Tier::Quick, true, true, known);
    match run_case(sub.run, &rp.bytes, &mut ctx) {
        Ok(()) => Ok(None),
        Err(f) => Ok(Some((f, ctx.render))),
    }
}

pub fn main(prop: Property) -> ! {
    install_panic_hook();
    let args: Vec<String> = std::env::args().skip(1).collect();
    if args.is_empty() {
        usage(prop.id);
    }
    if args[0] == "--list" {
        println!("#death_is_violation={}", prop.death_is_violation);
        for s in &prop.subchecks {
            println!("{}\t{}", s.name, s.about);
        }
        std::process::exit(0);
    }
    if args[0] == "--replay" {
        let Some(p) = args.get(1) else { usage(prop.id) };
        match replay_file(&prop, Path::new(p)) {
            Err(e) => {
                eprintln!("HARNESS-ERROR: {e}");
                std::process::exit(2);
            }
            Ok(None) => {
                println!("REPLAY property={} file={} result=pass", prop.id, p);
                std::process::exit(0);
            }
            Ok(Some((f, render))) => {
                println!("REPLAY property={} file={} result=fail", prop.id, p);
                println!("  signature: {}", f.sig);
                println!("  message:   {}", f.msg);
                if let Some(r) = render {
                    println!("  case:      {r}");
                }
                println!("VIOLATION property={} replay={}", prop.id, p);
                std::process::exit(1);
            }
        }
    }
    let tier = match args[0].as_str() {
        "quick" => Tier::Quick,
        "thorough" => Tier::Thorough,
        _ => usage(prop.id),
    };
    let mut only_sub: Option<String> = None;
    let mut scale = 1.0f64;
    let mut no_evidence = false;
    let mut i = 1;
    while i < args.len() {
        match args[i].as_str() {
            "--sub" => {
                only_sub = args.get(i + 1).cloned();
                i += 2;
            }
            "--scale" => {
                scale = args.get(i + 1).and_then(|s| s.parse().ok()).unwrap_or(1.0);
                i += 2;
            }
            "--no-evidence" => {
                no_evidence = true;
                i += 1;
            }
            _ => usage(prop.id),
        }
    }
    if let Ok(s) = std::env::var("VERIF_SCALE") {
        if let Ok(v) = s.parse::<f64>() {
            scale *= v;
        }
    }
    let seed = seed_from_env();
    let t0 = Instant::now();
    let known_list = load_known_findings(prop.id);
    let known: Arc<Vec<String>> = Arc::new(known_list.iter().map(|k| k.signature.clone()).collect());
    let root = verif_root();
    let mut violations: Vec<(String, PathBuf)> = vec![];
    let mut known_lines: Vec<String> = vec![];
    let mut harness_errors: Vec<String> = vec![];

    // 1. regress replays: known-finding reproducers and committed regressions
    let mut regress_files: Vec<PathBuf> = vec![];
    if let Ok(rd) = std::fs::read_dir(root.join("regress").join(prop.id)) {
        for e in rd.flatten() {
            let p = e.path();
            if p.extension().and_then(|x| x.to_str()) == Some("json") {
                regress_files.push(p);
            }
        }
    }
    regress_files.sort();
    let mut regress_replayed = 0u64;
    let mut known_seen: BTreeMap<String, bool> = BTreeMap::new();
    for p in &regress_files {
        if let Ok(rp) = read_replay(p) {
            if let Some(o) = &only_sub {
                if *o != rp.subcheck {
                    continue;
                }
            }
        }
        regress_replayed += 1;
        match replay_file(&prop, p) {
            Err(e) => harness_errors.push(e),
            Ok(None) => {}
            Ok(Some((f, _))) => {
                if let Some(k) = known_list.iter().find(|k| k.signature == f.sig) {
                    if known_seen.insert(k.signature.clone(), true).is_none() {
                        known_lines.push(format!(
                            "KNOWN-FINDING: property={} {} [signature {}; reproducer {}]",
                            prop.id,
                            k.what,
                            k.signature,
                            p.strip_prefix(&root).unwrap_or(p).display()
                        ));
                    }
                } else {
                    println!("regress replay {} fails: {} — {}", p.display(), f.sig, f.msg);
                    violations.push((f.sig.clone(), p.clone()));
                }
            }
        }
    }
    for l in &known_lines {
        println!("{l}");
    }

    // 2. search
    let run_dir = root.join("run").join(prop.id);
    let _ = std::fs::create_dir_all(&run_dir);
    let mut total = Stats::default();
    let mut sub_reports: Vec<Value> = vec![];
    let mut all_exhaustive = true;
    let mut exhaustive_subs: Vec<&str> = vec![];
    let nthreads: usize = std::env::var("VERIF_THREADS")
        .ok()
        .and_then(|s| s.parse().ok())
        .unwrap_or(NSHARDS)
        .clamp(1, NSHARDS);
    // watchdog
    let heartbeats: Arc<Vec<AtomicU64>> = Arc::new((0..NSHARDS).map(|_| AtomicU64::new(0)).collect());
    let watchdog_limit_ms: u64 = std::env::var("VERIF_WATCHDOG_S")
        .ok()
        .and_then(|s| s.parse().ok())
        .unwrap_or(600u64)
        * 1000;
    {
        let hb = heartbeats.clone();
        let id = prop.id;
        std::thread::spawn(move || loop {
            std::thread::sleep(std::time::Duration::from_secs(2));
            let now = t0.elapsed().as_millis() as u64 + 1;
            for (s, h) in hb.iter().enumerate() {
                let v = h.load(Ordering::Relaxed);
                if v != 0 && now > v + watchdog_limit_ms {
                    println!("INCONCLUSIVE property={id} watchdog: a case in shard {s} exceeded {} s (in-flight bytes under run/{id}/)", watchdog_limit_ms / 1000);
                    std::process::exit(2);
                }
            }
        });
    }

    for sub in &prop.subchecks {
        if let Some(o) = &only_sub {
            if o != sub.name {
                continue;
            }
        }
        let ts = Instant::now();
        let stop = AtomicBool::new(false);
        let results: Mutex<Vec<(usize, Stats, Option<FoundFailure>)>> = Mutex::new(vec![]);
        let next = AtomicU64::new(0);
        std::thread::scope(|sc| {
            for _ in 0..nthreads {
                std::thread::Builder::new().stack_size(8 << 20).spawn_scoped(sc, || loop {
                    let shard = next.fetch_add(1, Ordering::SeqCst) as usize;
                    if shard >= NSHARDS {
                        break;
                    }
                    let inflight = if sub.inflight {
                        std::fs::OpenOptions::new()
                            .create(true)
                            .write(true)
                            .truncate(true)
                            .open(run_dir.join(format!("inflight-{}-{shard}.bin", sub.name)))
                            .ok()
                    } else {
                        None
                    };
                    let mut env = ShardEnv {
                        prop: &prop,
                        sub,
                        tier,
                        known: known.clone(),
                        stop: &stop,
                        inflight,
                        heartbeat: &heartbeats[shard],
                        t0,
                        dump_dir: std::env::var("VERIF_DUMP_CORPUS").ok().map(|d| {
                            let p = PathBuf::from(d);
                            let _ = std::fs::create_dir_all(&p);
                            p
                        }),
                    };
                    let (st, ff) = run_shard(&mut env, seed, shard, scale);
                    if ff.is_some() {
                        stop.store(true, Ordering::Relaxed);
                    }
                    results.lock().unwrap().push((shard, st, ff));
                }).expect("spawn shard thread");
            }
        });
        // clean in-flight files of completed shards
        if sub.inflight {
            for shard in 0..NSHARDS {
                let _ = std::fs::remove_file(run_dir.join(format!("inflight-{}-{shard}.bin", sub.name)));
            }
        }
        let mut results = results.into_inner().unwrap();
        results.sort_by_key(|r| r.0);
        let mut sub_stats = Stats::default();
        let mut seen_sigs: HashSet<String> = HashSet::new();
        for (_, st, ff) in results {
            sub_stats.merge(st);
            if let Some(mut ff) = ff {
                if !seen_sigs.insert(ff.failure.sig.clone()) {
                    continue;
                }
                post_shrink(sub, tier, &known, &mut ff);
                let rendering = render_case(sub, tier, &known, &ff.bytes);
                let path = write_replay(
                    prop.id,
                    sub.name,
                    &ff.bytes,
                    &ff.failure,
                    rendering.as_deref(),
                    &format!("{} tier={} seed={}", ff.origin, tier.name(), seed),
                );
                println!(
                    "failure in {}/{}: {} — {}",
                    prop.id, sub.name, ff.failure.sig, ff.failure.msg
                );
                if let Some(r) = &rendering {
                    println!("  minimal case: {r}");
                }
                if ff.failure.sig.starts_with("harness-panic:") {
                    harness_errors.push(format!("{} (replay {})", ff.failure.msg, path.display()));
                    continue;
                }
                violations.push((ff.failure.sig.clone(), path));
            }
        }
        let exhaustive = matches!(sub.source, Source::Enumerate { exhaustive: true, .. });
        if exhaustive {
            exhaustive_subs.push(sub.name);
        } else {
            all_exhaustive = false;
        }
        // non-vacuity floors (quick tier at scale >= 1 only)
        if seen_sigs.is_empty() && scale >= 1.0 {
            if (sub_stats.nontrivial.len() as u64) < sub.min_nontrivial {
                harness_errors.push(format!(
                    "sub-check {} produced only {} distinct non-trivial cases (floor {})",
                    sub.name,
                    sub_stats.nontrivial.len(),
                    sub.min_nontrivial
                ));
            }
            for l in sub.required_labels {
                if !sub_stats.labels.contains_key(*l) {
                    harness_errors.push(format!(
                        "sub-check {} never produced required label {}",
                        sub.name, l
                    ));
                }
            }
        }
        sub_reports.push(json!({
            "name": sub.name,
            "about": sub.about,
            "driver": match sub.source { Source::Random{..} => "proptest (byte choice sequence)", Source::Enumerate{..} => "deterministic enumeration" },
            "exhaustive": exhaustive,
            "evaluations": sub_stats.evaluations,
            "distinct_nontrivial": sub_stats.nontrivial.len(),
            "discarded": sub_stats.discarded,
            "ran_dry": sub_stats.ran_dry,
            "inner_evaluations": sub_stats.inner,
            "wall_s": ts.elapsed().as_secs_f64(),
        }));
        println!(
            "  [{}] {}: {} cases, {} distinct non-trivial, {} discarded, {:.1}s",
            prop.id,
            sub.name,
            sub_stats.evaluations,
            sub_stats.nontrivial.len(),
            sub_stats.discarded,
            ts.elapsed().as_secs_f64()
        );
        // keep samples from every subcheck
        let mut s = sub_stats;
        let samples = std::mem::take(&mut s.samples);
        for x in samples.into_iter().take(2) {
            total.samples.push(x);
        }
        total.merge(s);
    }

    // 3. evidence
    let mut dedup: Vec<(String, PathBuf)> = vec![];
    for v in violations {
        if !dedup.iter().any(|d| d.0 == v.0) {
            dedup.push(v);
        }
    }
    let evidence = json!({
        "property_id": prop.id,
        "tier": tier.name(),
        "seed": seed as i64,
        "level": "exploration",
        "coverage": {
            "evaluations": total.evaluations,
            "distinct_nontrivial": total.nontrivial.len(),
            "rule": prop.rule,
            "samples": total.samples,
            "exhaustive": all_exhaustive && !prop.subchecks.is_empty(),
            "exhaustive_sub_checks": exhaustive_subs,
            "labels": total.labels,
            "discarded": total.discarded,
            "ran_dry": total.ran_dry,
            "inner_evaluations": total.inner,
            "excluded_known_findings": total.excluded,
            "sub_checks": sub_reports,
            "regress_replayed": regress_replayed,
            "scale": scale,
        },
        "assumptions": prop.assumptions,
        "wall_s": t0.elapsed().as_secs_f64(),
        "violations": dedup.len(),
        "known_findings_reported": known_lines,
        "harness_errors": harness_errors,
    });
    if !no_evidence && only_sub.is_none() {
        let dir = root.join("evidence");
        let _ = std::fs::create_dir_all(&dir);
        let path = dir.join(format!("{}.json", prop.id));
        let mut f = std::fs::File::create(&path).expect("evidence file");
        f.write_all(serde_json::to_string_pretty(&evidence).unwrap().as_bytes())
            .unwrap();
        f.write_all(b"\n").unwrap();
    }
    println!(
        "[{}] {} tier: {} cases, {} distinct non-trivial, {} excluded as known findings, {:.1}s",
        prop.id,
        tier.name(),
        total.evaluations,
        total.nontrivial.len(),
        total.excluded.values().sum::<u64>(),
        t0.elapsed().as_secs_f64()
    );
    if !dedup.is_empty() {
        for (_, p) in &dedup {
            println!("VIOLATION property={} replay={}", prop.id, p.display());
        }
        std::process::exit(1);
    }
    if !harness_errors.is_empty() {
        for e in &harness_errors {
            println!("HARNESS-ERROR property={} {}", prop.id, e);
        }
        std::process::exit(2);
    }
    std::process::exit(0);
}
