//! The seven valid version-2 proof-of-space vectors shipped with the
//! repository (`crates/chia-protocol/quality-string-tests/*.txt`): the only
//! v2 proofs whose quality-string commitment is known *independently* of the
//! code under test. File format (one item per line, `#` comments): challenge,
//! strength, plot_index, meta_group, pool public key (96 hex chars) or pool
//! contract puzzle hash (64 hex chars), proof, expected quality commitment.
//! The plot public key is fixed (it is a constant of the upstream test).

use std::sync::OnceLock;

use chia_bls::G1Element;
use chia_protocol::{Bytes, Bytes32, ProofOfSpace};

pub const PLOT_PK_HEX: &str =
    "a9c96f979d895b9ded08907ecd775abf889d51219bb7776dd73fdbac6b0dcc063c72c9e10d96776f486bbd1416b54533";

pub const VECTOR_NAMES: [&str; 7] = [
    "pool-2-0-0",
    "contract-2-0-0",
    "contract-3-0-0",
    "pool-3-0-0",
    "pool-2-1-0",
    "pool-2-0-1",
    "pool-2-1000-7",
];

#[derive(Clone, Debug)]
pub struct PosVector {
    pub name: &'static str,
    pub challenge: [u8; 32],
    pub strength: u8,
    pub plot_index: u16,
    pub meta_group: u8,
    pub pool_pk: Option<G1Element>,
    pub pool_contract: Option<Bytes32>,
    pub plot_pk: G1Element,
    pub proof: Vec<u8>,
    pub quality: [u8; 32],
}

impl PosVector {
    /// a version-2 proof of space carrying this vector (any challenge: it does
    /// not enter the plot id nor the quality string)
    /// the same vector with other proof bytes (None: unchanged)
    pub fn clone_with_proof(&self, proof: Option<Vec<u8>>) -> PosVector {
        PosVector {
            name: self.name,
            challenge: self.challenge,
            strength: self.strength,
            plot_index: self.plot_index,
            meta_group: self.meta_group,
            pool_pk: self.pool_pk,
            pool_contract: self.pool_contract,
            plot_pk: self.plot_pk,
            proof: proof.unwrap_or_else(|| self.proof.clone()),
            quality: self.quality,
        }
    }

    pub fn make(&self, challenge: Bytes32) -> ProofOfSpace {
        ProofOfSpace::new(
            challenge,
            self.pool_pk,
            self.pool_contract,
            self.plot_pk,
            1,
            self.plot_index,
            self.meta_group,
            self.strength,
            0,
            Bytes::from(self.proof.clone()),
        )
    }

    /// does `p` carry exactly this vector's quality-relevant fields?
    pub fn matches(&self, p: &ProofOfSpace) -> bool {
        p.version == 1
            && p.strength == self.strength
            && p.plot_index == self.plot_index
            && p.meta_group == self.meta_group
            && p.pool_public_key == self.pool_pk
            && p.pool_contract_puzzle_hash == self.pool_contract
            && p.plot_public_key == self.plot_pk
            && p.proof.as_slice() == self.proof.as_slice()
    }
}

pub fn repo_root() -> String {
    std::env::var("VERIF_REPO").unwrap_or_else(|_| "/repo".to_string())
}

fn load_one(name: &'static str) -> Option<PosVector> {
    let path = format!("{}/crates/chia-protocol/quality-string-tests/{name}.txt", repo_root());
    let text = std::fs::read_to_string(path).ok()?;
    let l: Vec<&str> = text
        .lines()
        .map(|line| line.split('#').next().unwrap_or(line).trim())
        .filter(|s| !s.is_empty())
        .collect();
    if l.len() != 7 {
        return None;
    }
    let challenge: [u8; 32] = hex::decode(l[0]).ok()?.try_into().ok()?;
    let strength: u8 = l[1].parse().ok()?;
    let plot_index: u16 = l[2].parse().ok()?;
    let meta_group: u8 = l[3].parse().ok()?;
    let (pool_pk, pool_contract) = if l[4].len() == 96 {
        let b: [u8; 48] = hex::decode(l[4]).ok()?.try_into().ok()?;
        (Some(G1Element::from_bytes(&b).ok()?), None)
    } else {
        let b: [u8; 32] = hex::decode(l[4]).ok()?.try_into().ok()?;
        (None, Some(Bytes32::new(b)))
    };
    let proof = hex::decode(l[5]).ok()?;
    let quality: [u8; 32] = hex::decode(l[6]).ok()?.try_into().ok()?;
    let pk: [u8; 48] = hex::decode(PLOT_PK_HEX).ok()?.try_into().ok()?;
    Some(PosVector {
        name,
        challenge,
        strength,
        plot_index,
        meta_group,
        pool_pk,
        pool_contract,
        plot_pk: G1Element::from_bytes(&pk).ok()?,
        proof,
        quality,
    })
}

/// the vectors that could be loaded (empty if the directory is missing: the
/// checks then fail their `required_labels` floor, i.e. a harness error)
pub fn vectors() -> &'static [PosVector] {
    static V: OnceLock<Vec<PosVector>> = OnceLock::new();
    V.get_or_init(|| VECTOR_NAMES.iter().filter_map(|n| load_one(n)).collect())
}

/// the file-recorded commitment for `p`, if `p` carries one of the vectors
pub fn known_quality(p: &ProofOfSpace) -> Option<[u8; 32]> {
    vectors().iter().find(|v| v.matches(p)).map(|v| v.quality)
}
