//! Long lists. The generic list decoder of chia-traits limits its
//! *pre-allocation* to 2 MiB worth of elements (`2 MiB / size_of::<T>()`), not
//! the list length: lists longer than that are legal values and have to round
//! trip like any other. The generated values of `gen.rs` have at most a few
//! dozen elements (a case has to stay cheap), so the behaviour at and beyond
//! that limit is never seen by them. This module builds lists whose length is
//! chosen *relative to the limit of their element type* (and to the same limit
//! measured in wire bytes), cheaply: a pool of 16 generated elements repeated in
//! a seed-dependent pattern.
//!
//! Three shapes per element type: the bare `Vec<T>`, `(Vec<T>, u32)` (a field
//! follows the list, as in every protocol message) and, for `Bytes32` /
//! `CoinState`, the wallet-protocol message `RespondToPhUpdates`.

use chia_protocol::*;
use vcore::Src;

use crate::gen::{expand, take_gen_labels};
use crate::{boxed, entry, DynValue, Entry, How, Registrable};

/// the decoder's pre-allocation budget (chia-traits `streamable.rs`)
pub const PREALLOC_BYTES: usize = 2 * 1024 * 1024;

#[derive(Clone, Copy, Debug, PartialEq, Eq)]
pub enum Shape {
    Bare,
    ThenU32,
    PhUpdatesHashes,
    PhUpdatesStates,
}

pub struct BigList {
    /// e.g. `Vec<CoinState>` or `(Vec<CoinState>,u32)`
    pub name: String,
    pub elem: &'static str,
    pub shape: Shape,
    pub elem_size_of: usize,
    /// decoding an element involves a BLS subgroup check (slow)
    pub slow: bool,
    /// decoders of the container
    pub entry: Entry,
    /// the container with a list of exactly `n` elements
    pub make: fn(n: usize, seed: u64) -> Box<dyn DynValue>,
    /// the encodings of `m` further elements (continuing the pattern at `n`)
    pub more: fn(n: usize, m: usize, seed: u64) -> Vec<u8>,
    /// offset in the container's encoding of the list's 4-byte length prefix
    /// (the elements follow it; whatever follows them is the container's tail)
    pub prefix_at: usize,
}

fn pool<T: Registrable>(seed: u64) -> Vec<T> {
    let v = (0..16u64)
        .map(|i| {
            let choice = expand(seed.wrapping_mul(0x9e37_79b9).wrapping_add(i), 96);
            T::generate(&mut Src::new(&choice))
        })
        .collect();
    let _ = take_gen_labels();
    v
}

fn pattern(i: usize, seed: u64) -> usize {
    // not periodic with a small period, differs by seed
    (i.wrapping_mul(7) ^ (i >> 4) ^ (seed as usize)) & 15
}

fn list<T: Registrable>(n: usize, seed: u64) -> Vec<T> {
    let p = pool::<T>(seed);
    (0..n).map(|i| p[pattern(i, seed)].clone()).collect()
}

fn more_of<T: Registrable>(n: usize, m: usize, seed: u64) -> Vec<u8> {
    let p = pool::<T>(seed);
    let enc: Vec<Vec<u8>> = p.iter().map(|e| e.to_bytes().expect("element encodes")).collect();
    let mut out = Vec::new();
    for i in n..n + m {
        out.extend_from_slice(&enc[pattern(i, seed)]);
    }
    out
}

fn make_bare<T: Registrable>(n: usize, seed: u64) -> Box<dyn DynValue> {
    boxed(list::<T>(n, seed))
}

fn make_then<T: Registrable>(n: usize, seed: u64) -> Box<dyn DynValue> {
    boxed((list::<T>(n, seed), 0x0102_0304u32 ^ (seed as u32)))
}

fn make_ph_hashes(n: usize, seed: u64) -> Box<dyn DynValue> {
    boxed(RespondToPhUpdates::new(list::<Bytes32>(n, seed), seed as u32, list::<CoinState>(3, seed)))
}

fn make_ph_states(n: usize, seed: u64) -> Box<dyn DynValue> {
    boxed(RespondToPhUpdates::new(list::<Bytes32>(2, seed), seed as u32, list::<CoinState>(n, seed)))
}

fn push<T: Registrable>(v: &mut Vec<BigList>, elem: &'static str, slow: bool) {
    v.push(BigList {
        name: format!("Vec<{elem}>"),
        elem,
        shape: Shape::Bare,
        elem_size_of: std::mem::size_of::<T>(),
        slow,
        entry: entry::<Vec<T>>(&format!("Vec<{elem}>"), "chia-traits", How::HandWritten),
        make: make_bare::<T>,
        more: more_of::<T>,
        prefix_at: 0,
    });
    v.push(BigList {
        name: format!("(Vec<{elem}>,u32)"),
        elem,
        shape: Shape::ThenU32,
        elem_size_of: std::mem::size_of::<T>(),
        slow,
        entry: entry::<(Vec<T>, u32)>(&format!("(Vec<{elem}>,u32)"), "chia-traits", How::HandWritten),
        make: make_then::<T>,
        more: more_of::<T>,
        prefix_at: 0,
    });
}

pub fn big_lists() -> Vec<BigList> {
    let mut v = Vec::new();
    push::<u8>(&mut v, "u8", false);
    push::<bool>(&mut v, "bool", false);
    push::<u32>(&mut v, "u32", false);
    push::<u64>(&mut v, "u64", false);
    push::<i128>(&mut v, "i128", false);
    push::<Bytes32>(&mut v, "Bytes32", false);
    push::<Option<u64>>(&mut v, "Option<u64>", false);
    push::<Option<Bytes32>>(&mut v, "Option<Bytes32>", false);
    push::<(u16, bool)>(&mut v, "(u16,bool)", false);
    push::<Vec<u8>>(&mut v, "Vec<u8>", false);
    push::<String>(&mut v, "String", false);
    push::<Bytes>(&mut v, "Bytes", false);
    push::<Coin>(&mut v, "Coin", false);
    push::<CoinState>(&mut v, "CoinState", false);
    push::<(Bytes32, Option<Coin>)>(&mut v, "(Bytes32,Option<Coin>)", false);
    push::<(Bytes32, u64, Option<Bytes>)>(&mut v, "(Bytes32,u64,Option<Bytes>)", false);
    push::<TimestampedPeerInfo>(&mut v, "TimestampedPeerInfo", false);
    push::<chia_bls::PublicKey>(&mut v, "G1Element", true);
    v.push(BigList {
        name: "RespondToPhUpdates.puzzle_hashes".into(),
        elem: "Bytes32",
        shape: Shape::PhUpdatesHashes,
        elem_size_of: std::mem::size_of::<Bytes32>(),
        slow: false,
        entry: entry::<RespondToPhUpdates>("RespondToPhUpdates", "chia-protocol", How::DerivedArbitrary),
        make: make_ph_hashes,
        more: more_of::<Bytes32>,
        prefix_at: 0,
    });
    v.push(BigList {
        name: "RespondToPhUpdates.coin_states".into(),
        elem: "CoinState",
        shape: Shape::PhUpdatesStates,
        elem_size_of: std::mem::size_of::<CoinState>(),
        slow: false,
        entry: entry::<RespondToPhUpdates>("RespondToPhUpdates", "chia-protocol", How::DerivedArbitrary),
        make: make_ph_states,
        more: more_of::<CoinState>,
        // [4 prefix][2 * 32 hashes][4 min_height]
        prefix_at: 4 + 64 + 4,
    });
    v
}

/// list lengths worth looking at for an element type: around the decoder's
/// pre-allocation limit measured in memory (`2 MiB / size_of`) and in wire
/// bytes (`2 MiB / wire size of the first pool element`), multiples of both,
/// and two small ones. `heavy` adds the multiples.
pub fn lengths(elem_size_of: usize, wire: usize, heavy: bool) -> Vec<usize> {
    let mut out = vec![0usize, 1, 17];
    let mut thr = vec![];
    if elem_size_of > 0 {
        thr.push(PREALLOC_BYTES / elem_size_of);
    }
    if wire > 0 {
        thr.push(PREALLOC_BYTES / wire);
    }
    for t in thr {
        for d in [-1i64, 0, 1, 2] {
            out.push((t as i64 + d).max(0) as usize);
        }
        if heavy {
            out.extend_from_slice(&[t + t / 2, 2 * t - 1, 2 * t, 2 * t + 1, 3 * t + 7]);
        }
    }
    out.sort_unstable();
    out.dedup();
    out
}
