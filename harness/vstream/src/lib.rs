//! vstream — the REGISTRY of `chia_traits::Streamable` types, with type-erased
//! operations over bytes. Shared by C13 (canonical bijection + hashing), C14
//! (total, bounded decoding) and intended for reuse by C20 (JSON round-trip).
//!
//! # API
//!
//! * [`registry()`] → `&'static [Entry]`: one entry per Streamable type:
//!   every `#[streamable]` / `derive(Streamable)` / `impl Streamable for` type
//!   of chia-protocol, chia-bls, chia-consensus, chia-datalayer, plus
//!   primitive and combinator instantiations (`u8..i128`, `bool`, `String`,
//!   `()`, `Option<T>`, `Vec<T>`, tuples, arrays, nested).
//! * [`Entry`]: `name` (e.g. `"FullBlock"`, `"Vec<Option<u32>>"`), `krate`,
//!   `how` (how values are generated), `size_of`, and function pointers
//!   - `generate(&mut Src) -> Box<dyn DynValue>`: a *well-formed* value from a
//!     choice sequence (derived `Arbitrary` + fix-up pass, or hand-written);
//!   - `from_bytes(&[u8])` / `from_bytes_unchecked(&[u8])`
//!     `-> Result<Box<dyn DynValue>, chia_traits::Error>`: the untrusted and
//!     trusted decoders (both enforce "all input consumed");
//!   - `parse_prefix(&[u8], trusted) -> (ok, position)`: `T::parse` on a cursor
//!     (how far the decoder got);
//!   - `variable_len()`: does the encoding contain an Option / Vec / version
//!     prefix (decided by comparing the encodings of a minimal and a maximal
//!     generated value).
//! * [`DynValue`]: `to_bytes`, `hash` (the streaming hash = `update_digest`),
//!   `eq_dyn`, `clone_dyn`, `debug`, `as_any` (down-cast to the concrete type,
//!   e.g. for `ToJsonDict`), `expected_hash(&encoding)` (the property's hash
//!   rule computed *without* `update_digest`, see below), `walk` (visit the
//!   embedded `ProofOfSpace` / `FullBlock` / `UnfinishedBlock` / `Program`).
//! * [`version_prefix_positions`]: offsets of the version-packed prefix bytes
//!   of embedded ProofOfSpace / FullBlock / UnfinishedBlock in an encoding.
//! * [`gen`]: the `Generate` trait, the fix-up pass, `take_gen_labels()`.
//! * [`walk`]: the `Walk`/`Walker` visitor and the container table.
//! * [`vectors`]: the 7 valid v2 proof-of-space vectors of the repository.
//! * [`drift`]: the registry-drift detector (grep of `/repo/crates`).
//!
//! # The hash rule ([`DynValue::expected_hash`])
//!
//! `hash(v) = sha256(to_bytes(v))`, except that for every embedded
//! *version-2* proof of space (wire version 1) the length-prefixed proof is
//! replaced by the 32-byte quality-string commitment. The commitment is taken
//! from the repository's vector files when the proof carries one of the seven
//! vectors ([`HashSource::Vectors`]); otherwise from
//! `ProofOfSpace::quality_string()` ([`HashSource::Code`]); if that returns
//! `None` the value has **no defined hash** ([`HashExpect::Undefined`]) —
//! calling `hash()` on it panics in the pinned tree (finding F3 of C14).
//! The position of a proof inside a container's encoding is found
//! differentially (flip the proof's bytes, re-encode, diff), so no per-type
//! layout knowledge is needed.
//!
//! To add a type: implement `walk::Walk` (usually one line in `walk_leaf!` or
//! `walk_fields!`), `gen::Generate` (one line in `gen_arbitrary!` or a
//! `gen_struct!`), and add it to a `reg!` list in [`registry()`].

pub mod biglist;
pub mod drift;
pub mod gen;
pub mod vectors;
pub mod walk;

use std::any::Any;
use std::fmt::Debug;
use std::sync::OnceLock;

use chia_protocol::*;
use chia_traits::chia_error::Error;
use chia_traits::Streamable;
use sha2::{Digest, Sha256};
use vcore::Src;

pub use gen::{take_gen_labels, Generate};
pub use walk::{Walk, Walker};

pub type DecodeResult = Result<Box<dyn DynValue>, Error>;

#[derive(Clone, Copy, Debug, PartialEq, Eq)]
pub enum How {
    /// the `Arbitrary` impl derived/written in the crate under test + fix-up
    DerivedArbitrary,
    /// generator written in this crate
    HandWritten,
}

#[derive(Clone, Copy, Debug, PartialEq, Eq)]
pub enum HashSource {
    /// no version-2 proof of space embedded: plain sha256 of the encoding
    Plain,
    /// every embedded v2 proof carries a repository vector (independent oracle)
    Vectors,
    /// at least one commitment had to be taken from `quality_string()`
    Code,
}

#[derive(Clone, Debug, PartialEq, Eq)]
pub enum HashExpect {
    Defined { hash: [u8; 32], source: HashSource, v2_proofs: usize },
    /// a v2 proof of space whose proof bytes yield no quality string
    Undefined { v2_proofs: usize },
    /// the proof bytes could not be located in the encoding (the encoder does
    /// not reflect a change of the proof in exactly one place)
    Unlocatable,
}

pub trait DynValue {
    fn to_bytes(&self) -> Result<Vec<u8>, Error>;
    /// the streaming hash (`Streamable::hash`, i.e. `update_digest`)
    fn hash(&self) -> [u8; 32];
    fn eq_dyn(&self, other: &dyn DynValue) -> bool;
    fn clone_dyn(&self) -> Box<dyn DynValue>;
    fn debug(&self) -> String;
    fn as_any(&self) -> &dyn Any;
    fn walk(&mut self, w: &mut dyn Walker);
    /// the hash the property prescribes, computed from the encoding
    fn expected_hash(&self, encoding: &[u8]) -> HashExpect;
    /// number of BLS group elements embedded in the value (counted in the
    /// `Debug` rendering). Only a deterministic *cost estimate* for decoding
    /// (a G1/G2 subgroup check costs ~50 µs, everything else ~1 ns/byte) used
    /// to size per-case work; never part of an oracle.
    fn bls_elements(&self) -> usize;
}

struct Holder<T>(T);

/// a concrete value as a `DynValue`
pub fn boxed<T: Registrable>(v: T) -> Box<dyn DynValue> {
    Box::new(Holder(v))
}

pub trait Registrable: Streamable + Generate + Walk + Clone + PartialEq + Debug + 'static {}
impl<T: Streamable + Generate + Walk + Clone + PartialEq + Debug + 'static> Registrable for T {}

impl<T: Registrable> DynValue for Holder<T> {
    fn to_bytes(&self) -> Result<Vec<u8>, Error> {
        self.0.to_bytes()
    }
    fn hash(&self) -> [u8; 32] {
        self.0.hash()
    }
    fn eq_dyn(&self, other: &dyn DynValue) -> bool {
        match other.as_any().downcast_ref::<T>() {
            Some(o) => self.0 == *o,
            None => false,
        }
    }
    fn clone_dyn(&self) -> Box<dyn DynValue> {
        Box::new(Holder(self.0.clone()))
    }
    fn debug(&self) -> String {
        let mut s = format!("{:?}", self.0);
        if s.len() > 700 {
            let mut cut = 700;
            while !s.is_char_boundary(cut) {
                cut -= 1;
            }
            s.truncate(cut);
            s.push('…');
        }
        s
    }
    fn as_any(&self) -> &dyn Any {
        &self.0
    }
    fn walk(&mut self, w: &mut dyn Walker) {
        self.0.walk(w);
    }
    fn expected_hash(&self, encoding: &[u8]) -> HashExpect {
        expected_hash_of(&self.0, encoding)
    }
    fn bls_elements(&self) -> usize {
        let s = format!("{:?}", self.0);
        s.matches("<G1Element").count() + s.matches("<G2Element").count()
    }
}

fn sha256(b: &[u8]) -> [u8; 32] {
    let mut h = Sha256::new();
    h.update(b);
    h.finalize().into()
}

struct CollectV2 {
    /// per embedded v2 proof: (proof length, commitment, from vector files?)
    found: Vec<(usize, Option<[u8; 32]>, bool)>,
}

impl Walker for CollectV2 {
    fn pos(&mut self, p: &mut ProofOfSpace) {
        if p.version == 1 {
            if let Some(q) = vectors::known_quality(p) {
                self.found.push((p.proof.len(), Some(q), true));
            } else {
                let q = p.quality_string().map(|q| q.to_bytes());
                self.found.push((p.proof.len(), q, false));
            }
        }
    }
}

struct FlipProof {
    target: usize,
    seen: usize,
}

impl Walker for FlipProof {
    fn pos(&mut self, p: &mut ProofOfSpace) {
        if p.version == 1 {
            if self.seen == self.target {
                let flipped: Vec<u8> = p.proof.as_slice().iter().map(|b| b ^ 0xff).collect();
                p.proof = Bytes::from(flipped);
            }
            self.seen += 1;
        }
    }
}

fn expected_hash_of<T: Registrable>(v: &T, encoding: &[u8]) -> HashExpect {
    if !T::HAS_FIX {
        return HashExpect::Defined { hash: sha256(encoding), source: HashSource::Plain, v2_proofs: 0 };
    }
    let mut probe = v.clone();
    let mut c = CollectV2 { found: vec![] };
    probe.walk(&mut c);
    let n = c.found.len();
    if n == 0 {
        return HashExpect::Defined { hash: sha256(encoding), source: HashSource::Plain, v2_proofs: 0 };
    }
    if c.found.iter().any(|f| f.1.is_none()) {
        return HashExpect::Undefined { v2_proofs: n };
    }
    // locate every proof: (start of the 4-byte length prefix, end of the proof)
    let mut regions: Vec<(usize, usize, [u8; 32])> = vec![];
    for (k, (plen, q, _)) in c.found.iter().enumerate() {
        let mut alt = v.clone();
        alt.walk(&mut FlipProof { target: k, seen: 0 });
        let Ok(enc2) = alt.to_bytes() else {
            return HashExpect::Unlocatable;
        };
        if enc2.len() != encoding.len() || *plen == 0 {
            return HashExpect::Unlocatable;
        }
        let first = (0..encoding.len()).find(|i| encoding[*i] != enc2[*i]);
        let last = (0..encoding.len()).rev().find(|i| encoding[*i] != enc2[*i]);
        let (Some(first), Some(last)) = (first, last) else {
            return HashExpect::Unlocatable;
        };
        if last + 1 - first != *plen || first < 4 {
            return HashExpect::Unlocatable;
        }
        if encoding[first - 4..first] != (*plen as u32).to_be_bytes() {
            return HashExpect::Unlocatable;
        }
        regions.push((first - 4, last + 1, q.expect("checked above")));
    }
    regions.sort_by_key(|r| r.0);
    let mut pre = Vec::with_capacity(encoding.len());
    let mut at = 0usize;
    for (start, end, q) in &regions {
        if *start < at {
            return HashExpect::Unlocatable;
        }
        pre.extend_from_slice(&encoding[at..*start]);
        pre.extend_from_slice(q);
        at = *end;
    }
    pre.extend_from_slice(&encoding[at..]);
    let source = if c.found.iter().all(|f| f.2) { HashSource::Vectors } else { HashSource::Code };
    HashExpect::Defined { hash: sha256(&pre), source, v2_proofs: n }
}

struct TogglePrefix {
    target: usize,
    seen: usize,
}

impl TogglePrefix {
    fn hit(&mut self) -> bool {
        let h = self.seen == self.target;
        self.seen += 1;
        h
    }
}

impl Walker for TogglePrefix {
    fn pos(&mut self, p: &mut ProofOfSpace) {
        if self.hit() {
            p.pool_contract_puzzle_hash = match p.pool_contract_puzzle_hash {
                Some(_) => None,
                None => Some(Bytes32::default()),
            };
        }
    }
    fn full_block(&mut self, b: &mut FullBlock) {
        if self.hit() {
            if b.version == 0 {
                b.transactions_generator = match b.transactions_generator {
                    Some(_) => None,
                    None => Some(Program::default()),
                };
            } else {
                b.transactions_generator_buffer = match b.transactions_generator_buffer {
                    Some(_) => None,
                    None => Some(vec![]),
                };
            }
        }
    }
    fn unfinished_block(&mut self, b: &mut UnfinishedBlock) {
        if self.hit() {
            if b.version == 0 {
                b.transactions_generator = match b.transactions_generator {
                    Some(_) => None,
                    None => Some(Program::default()),
                };
            } else {
                b.transactions_generator_buffer = match b.transactions_generator_buffer {
                    Some(_) => None,
                    None => Some(vec![]),
                };
            }
        }
    }
}

struct CountPacked(usize);
impl Walker for CountPacked {
    fn pos(&mut self, _p: &mut ProofOfSpace) {
        self.0 += 1;
    }
    fn full_block(&mut self, _b: &mut FullBlock) {
        self.0 += 1;
    }
    fn unfinished_block(&mut self, _b: &mut UnfinishedBlock) {
        self.0 += 1;
    }
}

/// Offsets, inside `encoding = to_bytes(v)`, of the *version-packed prefix
/// bytes* of every embedded `ProofOfSpace`, `FullBlock`, `UnfinishedBlock`
/// (the `Option` prefix that also carries the wire version). Found
/// differentially: toggling the packed `Option` of the k-th instance makes the
/// encoding diverge exactly at its prefix byte. Used to make sure byte-level
/// perturbation always includes these positions, however long the encoding.
pub fn version_prefix_positions(v: &dyn DynValue, encoding: &[u8]) -> Vec<usize> {
    let mut probe = v.clone_dyn();
    let mut c = CountPacked(0);
    probe.walk(&mut c);
    let mut out = vec![];
    for k in 0..c.0.min(12) {
        let mut alt = v.clone_dyn();
        alt.walk(&mut TogglePrefix { target: k, seen: 0 });
        if let Ok(enc2) = alt.to_bytes() {
            if let Some(i) = (0..encoding.len().min(enc2.len())).find(|i| encoding[*i] != enc2[*i]) {
                if !out.contains(&i) {
                    out.push(i);
                }
            }
        }
    }
    out
}

pub struct Entry {
    pub name: String,
    pub krate: &'static str,
    pub how: How,
    /// `std::mem::size_of` of the in-memory value
    pub size_of: usize,
    /// may embed ProofOfSpace / FullBlock / UnfinishedBlock / Program
    pub has_fix: bool,
    pub generate: fn(&mut Src<'_>) -> Box<dyn DynValue>,
    pub from_bytes: fn(&[u8]) -> DecodeResult,
    pub from_bytes_unchecked: fn(&[u8]) -> DecodeResult,
    /// `T::parse::<TRUSTED>` on a cursor over the bytes (no "all consumed"
    /// check): (parsed successfully?, cursor position afterwards). On failure
    /// the position is that of the last successful primitive read, i.e. a lower
    /// bound of what the decoder consumed before its verdict.
    pub parse_prefix: fn(&[u8], bool) -> (bool, u64),
    variable: OnceLock<bool>,
}

fn generate_boxed<T: Registrable>(s: &mut Src<'_>) -> Box<dyn DynValue> {
    Box::new(Holder(T::generate(s)))
}

fn from_bytes_boxed<T: Registrable>(b: &[u8]) -> DecodeResult {
    T::from_bytes(b).map(|v| Box::new(Holder(v)) as Box<dyn DynValue>)
}

fn from_bytes_unchecked_boxed<T: Registrable>(b: &[u8]) -> DecodeResult {
    T::from_bytes_unchecked(b).map(|v| Box::new(Holder(v)) as Box<dyn DynValue>)
}

fn parse_prefix_of<T: Registrable>(b: &[u8], trusted: bool) -> (bool, u64) {
    let mut c = std::io::Cursor::new(b);
    let ok = if trusted { T::parse::<true>(&mut c).is_ok() } else { T::parse::<false>(&mut c).is_ok() };
    (ok, c.position())
}

pub fn entry<T: Registrable>(name: &str, krate: &'static str, how: How) -> Entry {
    Entry {
        name: name
            .replace(' ', "")
            .replace("chia_protocol::", "")
            .replace("chia_bls::", "")
            .replace("chia_datalayer::", "datalayer::"),
        krate,
        how,
        size_of: std::mem::size_of::<T>(),
        has_fix: T::HAS_FIX,
        generate: generate_boxed::<T>,
        from_bytes: from_bytes_boxed::<T>,
        from_bytes_unchecked: from_bytes_unchecked_boxed::<T>,
        parse_prefix: parse_prefix_of::<T>,
        variable: OnceLock::new(),
    }
}

impl Entry {
    /// does the encoding contain an `Option`, `Vec`/length or version prefix?
    /// (true iff the encoding length is not constant: a minimal — all-zero
    /// choices — and a maximal — all-0xff choices — value differ in length)
    pub fn variable_len(&self) -> bool {
        *self.variable.get_or_init(|| {
            let lo = [0u8; 8];
            let hi = [0xffu8; 1024];
            let a = (self.generate)(&mut Src::new(&lo)).to_bytes().map(|b| b.len());
            let b = (self.generate)(&mut Src::new(&hi)).to_bytes().map(|b| b.len());
            let _ = take_gen_labels();
            a != b
        })
    }

    pub fn decode(&self, trusted: bool, b: &[u8]) -> DecodeResult {
        if trusted {
            (self.from_bytes_unchecked)(b)
        } else {
            (self.from_bytes)(b)
        }
    }
}

macro_rules! reg {
    ($v:ident, $krate:literal, $how:expr; $($t:ty),* $(,)?) => {
        $( $v.push(entry::<$t>(stringify!($t), $krate, $how)); )*
    };
}

type G1 = chia_bls::PublicKey;
type G2 = chia_bls::Signature;

fn build_registry() -> Vec<Entry> {
    use chia_consensus::consensus_constants::ConsensusConstants;
    use chia_consensus::owned_conditions::{OwnedSpendBundleConditions, OwnedSpendConditions};
    use How::{DerivedArbitrary as DA, HandWritten as HW};
    let mut v: Vec<Entry> = Vec::new();

    // ---- chia-protocol: hand-written codecs first --------------------------
    reg!(v, "chia-protocol", DA;
        ProofOfSpace, FullBlock, UnfinishedBlock, RewardChainBlock, SubEpochSummary, SubEpochData,
        Program,
    );
    reg!(v, "chia-protocol", HW; Bytes, Bytes32, Bytes48, Bytes96, Bytes100);
    reg!(v, "chia-protocol", DA;
        BlockRecord, ChallengeBlockInfo, ChallengeChainSubSlot, ClassgroupElement, Coin, CoinRecord,
        CoinSpend, CoinState, CoinStateFilters, CoinStateUpdate, EndOfSubSlotBundle, FeeEstimate,
        FeeEstimateGroup, FeeRate, Foliage, FoliageBlockData, FoliageTransactionBlock, Handshake,
        HeaderBlock, InfusedChallengeChainSubSlot, MempoolItemsAdded, MempoolItemsRemoved,
        MempoolRemoveReason, Message, NewCompactVDF, NewPeak, NewPeakWallet,
        NewSignagePointOrEndOfSubSlot, NewTransaction, NewUnfinishedBlock, NewUnfinishedBlock2,
        chia_protocol::NodeType, PartialProof, PoolTarget, ProofBlockHeader, ProtocolMessageTypes,
        PuzzleSolutionResponse, RecentChainData, RegisterForCoinUpdates, RegisterForPhUpdates,
        RejectAdditionsRequest, RejectBlock, RejectBlockHeaders, RejectBlocks, RejectCoinState,
        RejectHeaderBlocks, RejectHeaderRequest, RejectPuzzleSolution, RejectPuzzleState,
        RejectRemovalsRequest, RejectStateReason, RemovedMempoolItem, RequestAdditions,
        RequestBlock, RequestBlockHeader, RequestBlockHeaders, RequestBlocks, RequestChildren,
        RequestCoinState, RequestCompactVDF, RequestCostInfo, RequestFeeEstimates,
        RequestHeaderBlocks, RequestMempoolTransactions, RequestPeers, RequestProofOfWeight,
        RequestPuzzleSolution, RequestPuzzleState, RequestRemovals,
        RequestRemoveCoinSubscriptions, RequestRemovePuzzleSubscriptions, RequestSesInfo,
        RequestSignagePointOrEndOfSubSlot, RequestTransaction, RequestUnfinishedBlock,
        RequestUnfinishedBlock2, RespondAdditions, RespondBlock, RespondBlockHeader,
        RespondBlockHeaders, RespondBlocks, RespondChildren, RespondCoinState,
        RespondCompactVDF, RespondCostInfo, RespondEndOfSubSlot, RespondFeeEstimates,
        RespondHeaderBlocks, RespondPeers, RespondProofOfWeight, RespondPuzzleSolution,
        RespondPuzzleState, RespondRemovals, RespondRemoveCoinSubscriptions,
        RespondRemovePuzzleSubscriptions, RespondSesInfo, RespondSignagePoint,
        RespondToCoinUpdates, RespondToPhUpdates, RespondTransaction, RespondUnfinishedBlock,
        RewardChainBlockUnfinished, RewardChainSubSlot, SendTransaction, SpendBundle,
        SubEpochChallengeSegment, SubEpochSegments, SubSlotData, SubSlotProofs,
        TimestampedPeerInfo, TransactionAck, TransactionsInfo, UnfinishedHeaderBlock, VDFInfo,
        VDFProof, WeightProof,
    );

    // ---- chia-bls -----------------------------------------------------------
    reg!(v, "chia-bls", HW;
        chia_bls::PublicKey, chia_bls::Signature, chia_bls::SecretKey, chia_bls::GTElement,
    );

    // ---- chia-consensus -----------------------------------------------------
    reg!(v, "chia-consensus", HW;
        OwnedSpendConditions, OwnedSpendBundleConditions, ConsensusConstants,
    );

    // ---- chia-datalayer -----------------------------------------------------
    reg!(v, "chia-datalayer", HW;
        chia_datalayer::TreeIndex, chia_datalayer::Parent, chia_datalayer::Hash,
        chia_datalayer::KeyId, chia_datalayer::ValueId, chia_datalayer::NodeType,
        chia_datalayer::NodeMetadata, chia_datalayer::InternalNode, chia_datalayer::LeafNode,
        chia_datalayer::Side, chia_datalayer::ProofOfInclusionLayer,
        chia_datalayer::ProofOfInclusion,
    );

    // ---- chia-traits: primitives and combinators ---------------------------
    reg!(v, "chia-traits", HW;
        u8, i8, u16, i16, u32, i32, u64, i64, u128, i128, bool, String, (),
        Option<u8>, Option<u32>, Option<u64>, Option<bool>, Option<String>, Option<Bytes32>,
        Option<Bytes>, Option<()>, Option<Option<u16>>, Option<Vec<u32>>, Option<(u32, bool)>,
        Option<G1>, Option<Program>, Option<ProofOfSpace>, Option<Coin>,
        Vec<u8>, Vec<u32>, Vec<u64>, Vec<i128>, Vec<bool>, Vec<String>, Vec<()>, Vec<Bytes32>,
        Vec<Bytes>, Vec<Option<u32>>, Vec<Option<u128>>, Vec<Vec<u8>>, Vec<Vec<u32>>,
        Vec<Vec<Vec<u16>>>, Vec<Option<Vec<u64>>>, Vec<(u16, String)>, Vec<(Bytes32, Vec<Coin>)>,
        Vec<(Bytes32, Option<Coin>)>, Vec<(Bytes32, u64, Option<Bytes>)>, Vec<(G1, Bytes)>,
        Vec<Coin>, Vec<CoinSpend>, Vec<Program>, Vec<G2>, Vec<ProofOfSpace>, Vec<SubSlotData>,
        Vec<[u8; 4]>, Vec<(u32, Vec<Bytes>)>,
        (u8, bool), (u32, u32), (String, u32), (Bytes32, Bytes), (u32, u8, i8),
        (Bytes32, u64, Option<Bytes>), (u8, u32, u64, bool), (Vec<u8>, Vec<u8>),
        ((u32, u32), (String, String)), (u32, (u8, u8, u8), i32), (Program, u32),
        (Option<u8>, Option<u8>, Option<u8>, Option<u8>), (ProofOfSpace, u8), (G1, G2),
        [u8; 0], [u8; 3], [u8; 32], [u32; 4], [u64; 16], [bool; 5], [(u8, bool); 3], [[u16; 2]; 3],
        [Bytes32; 2],
    );
    v
}

/// the registry (built once; order is stable: it is part of the choice
/// sequence of C13/C14 cases)
pub fn registry() -> &'static [Entry] {
    static R: OnceLock<Vec<Entry>> = OnceLock::new();
    R.get_or_init(build_registry)
}

pub fn find(name: &str) -> Option<&'static Entry> {
    registry().iter().find(|e| e.name == name)
}
