//! Generators of *well-formed* Streamable values from a choice sequence.
//!
//! * chia-protocol types: the `Arbitrary` impl the crate derives under its
//!   `arbitrary` feature (driven by `Src::unstructured()`), followed by the
//!   **fix-up pass** (`Fixer`) that moves the three version-packed codecs into
//!   their representable subset and enriches `Program` fields.
//! * everything else (primitives, BLS elements, chia-consensus and
//!   chia-datalayer records, combinators): hand-written, drawing from `Src`.
//!
//! Zero bytes always select the simplest alternative (empty vector, `None`,
//! version 0, value 0), so a dry choice sequence still yields a valid value.

use std::cell::RefCell;

use arbitrary::{Arbitrary, Unstructured};
use chia_bls::{sign, GTElement, PublicKey, SecretKey, Signature};
use chia_protocol::*;
use clvmr::Allocator;
use vcore::gentree::{self, BuildMode, Tree};
use vcore::{Fnv, Src};

use crate::vectors::vectors;
use crate::walk::{Walk, Walker};

/// choice bytes reserved (at the front of the sequence) for fix-up decisions
/// of types that embed a version-packed codec or a `Program`
pub const FIX_BYTES: usize = 64;

/// choice bytes given to each component of a combinator whose generator hands
/// "the rest" to `Unstructured` (a fixed amount: the meaning of a choice
/// sequence must not depend on its length)
pub const SHARE: usize = 256;

pub trait Generate: Sized {
    /// the generator hands the *rest* of the choice sequence to
    /// `arbitrary::Unstructured`; combinators then give each component its own
    /// slice of the sequence
    const TAKES_REST: bool = false;
    fn generate(s: &mut Src<'_>) -> Self;
}

thread_local! {
    static GEN_LABELS: RefCell<Vec<&'static str>> = const { RefCell::new(Vec::new()) };
}

fn gen_label(l: &'static str) {
    GEN_LABELS.with(|g| {
        let mut g = g.borrow_mut();
        if g.len() < 64 {
            g.push(l);
        }
    });
}

/// classes of fix-up decisions taken by generators on this thread since the
/// last call (`pos:v1-format`, `pos:v2-vector`, `pos:v2-shaped`,
/// `pos:v2-unshaped`, `block:v0`, `block:v1`, `program:multibyte`,
/// `program:backrefs`)
pub fn take_gen_labels() -> Vec<&'static str> {
    GEN_LABELS.with(|g| std::mem::take(&mut *g.borrow_mut()))
}

// ---------------------------------------------------------------------------
// fix-up pass

pub struct Fixer<'a> {
    pub src: Src<'a>,
}

impl<'a> Fixer<'a> {
    pub fn new(src: Src<'a>) -> Self {
        Self { src }
    }
}

/// deterministic expansion of a seed into `n` bytes (the proof bytes of a
/// "shaped" v2 proof: right length, arbitrary content)
pub fn expand(seed: u64, n: usize) -> Vec<u8> {
    let mut out = Vec::with_capacity(n + 8);
    let mut ctr = 0u64;
    while out.len() < n {
        let mut f = Fnv::new();
        f.write_u64(seed).write_u64(ctr);
        out.extend_from_slice(&f.finish().to_le_bytes());
        ctr += 1;
    }
    out.truncate(n);
    out
}

fn exactly_one_pool(p: &mut ProofOfSpace, s: &mut Src<'_>) {
    match (p.pool_public_key.is_some(), p.pool_contract_puzzle_hash.is_some()) {
        (true, true) => {
            if s.bool() {
                p.pool_public_key = None;
            } else {
                p.pool_contract_puzzle_hash = None;
            }
        }
        (false, false) => {
            p.pool_contract_puzzle_hash = Some(Bytes32::new(s.array::<32>()));
        }
        _ => {}
    }
}

impl Walker for Fixer<'_> {
    fn pos(&mut self, p: &mut ProofOfSpace) {
        let s = &mut self.src;
        let mut mode = s.weighted(&[5, 3, 2, 2]);
        if mode == 1 && vectors().is_empty() {
            mode = 0;
        }
        match mode {
            0 => {
                // wire version 0 ("v1 proof"): any pool combination (lenient),
                // v2-only fields are not stored
                p.version = 0;
                p.plot_index = 0;
                p.meta_group = 0;
                p.strength = 0;
                gen_label("pos:v1-format");
            }
            1 => {
                let v = &vectors()[s.below(vectors().len())];
                *p = v.make(p.challenge);
                gen_label("pos:v2-vector");
            }
            2 => {
                // right shape (k even in 18..=32, 128 k-bit values, strength >= 2),
                // arbitrary content
                p.version = 1;
                p.size = 0;
                exactly_one_pool(p, s);
                p.strength = 2 + s.below(30) as u8;
                let k = 18 + 2 * s.below(8);
                p.proof = Bytes::from(expand(s.u64(), 16 * k));
                gen_label("pos:v2-shaped");
            }
            _ => {
                p.version = 1;
                p.size = 0;
                exactly_one_pool(p, s);
                gen_label("pos:v2-unshaped");
            }
        }
    }

    fn full_block(&mut self, b: &mut FullBlock) {
        let s = &mut self.src;
        if s.bool() {
            b.version = 1;
            if s.bool() {
                // the raw generator bytes of a real block are a CLVM list: mostly a
                // pair-rooted program (as the builders emit), else the derived
                // generator's program if there is one, else a few arbitrary bytes
                let bytes = if s.chance(160) {
                    let mut ts = s.sub(24);
                    let mut g = vec![0xff, 0x01];
                    g.extend_from_slice(&rich_program(&mut ts, false));
                    gen_label("block:v1-generator-is-a-quoted-program");
                    g
                } else if let Some(p) = &b.transactions_generator {
                    p.to_vec()
                } else {
                    let n = s.below(12);
                    s.bytes(n)
                };
                b.transactions_generator_buffer = Some(bytes);
            }
            b.transactions_generator = None;
            b.transactions_generator_ref_list = vec![];
            gen_label("block:v1");
        } else {
            b.version = 0;
            b.transactions_generator_buffer = None;
            gen_label("block:v0");
        }
    }

    fn unfinished_block(&mut self, b: &mut UnfinishedBlock) {
        let s = &mut self.src;
        if s.bool() {
            b.version = 1;
            if s.bool() {
                let bytes = if s.chance(160) {
                    let mut ts = s.sub(24);
                    let mut g = vec![0xff, 0x01];
                    g.extend_from_slice(&rich_program(&mut ts, false));
                    gen_label("block:v1-generator-is-a-quoted-program");
                    g
                } else if let Some(p) = &b.transactions_generator {
                    p.to_vec()
                } else {
                    let n = s.below(12);
                    s.bytes(n)
                };
                b.transactions_generator_buffer = Some(bytes);
            }
            b.transactions_generator = None;
            b.transactions_generator_ref_list = vec![];
            gen_label("block:v1");
        } else {
            b.version = 0;
            b.transactions_generator_buffer = None;
            gen_label("block:v0");
        }
    }

    fn program(&mut self, p: &mut Program) {
        let s = &mut self.src;
        match s.weighted(&[6, 2, 2]) {
            0 => {}
            1 => {
                let mut ts = s.sub(20);
                *p = Program::from(rich_program(&mut ts, false));
                gen_label("program:multibyte");
            }
            _ => {
                let mut ts = s.sub(20);
                *p = Program::from(rich_program(&mut ts, true));
                gen_label("program:backrefs");
            }
        }
    }
}

/// a complete CLVM serialisation with multi-byte atoms; with `backrefs` the
/// tree is built as a DAG and serialised with back-references (0xfe paths)
pub fn rich_program(s: &mut Src<'_>, backrefs: bool) -> Vec<u8> {
    let mut t = Tree::new();
    let root = gentree::gen_tree(s, &mut t, 14);
    if backrefs {
        let mut a = Allocator::new();
        let node = gentree::build(&mut a, &t, root, BuildMode::PLAIN);
        if let Ok(b) = clvmr::serde::node_to_bytes_backrefs(&a, node) {
            return b;
        }
    }
    t.serialize(root)
}

// ---------------------------------------------------------------------------
// chia-protocol: derived Arbitrary + fix-up

pub fn gen_via_arbitrary<T>(s: &mut Src<'_>) -> T
where
    T: for<'a> Arbitrary<'a> + Walk,
{
    let fix = if T::HAS_FIX { Some(s.sub(FIX_BYTES)) } else { None };
    // `Unstructured` is sensitive to the *length* of its data (collection
    // lengths are read from the end), whereas a choice sequence must mean the
    // same with or without trailing zeros (the engine strips them when it
    // minimises a failing case): canonicalise by dropping trailing zeros.
    let rest = s.unstructured();
    let mut data: &[u8] = rest.peek_bytes(rest.len()).unwrap_or(&[]);
    while let [head @ .., 0] = data {
        data = head;
    }
    let mut u = Unstructured::new(data);
    let mut v = match T::arbitrary(&mut u) {
        Ok(v) => v,
        Err(_) => T::arbitrary(&mut Unstructured::new(&[0u8; 64]))
            .expect("Arbitrary impl fails on an all-zero choice sequence"),
    };
    if let Some(f) = fix {
        v.walk(&mut Fixer::new(f));
    }
    v
}

#[macro_export]
macro_rules! gen_arbitrary {
    ($($t:ty),* $(,)?) => {
        $(impl $crate::gen::Generate for $t {
            const TAKES_REST: bool = true;
            fn generate(s: &mut vcore::Src<'_>) -> Self {
                $crate::gen::gen_via_arbitrary::<$t>(s)
            }
        })*
    };
}

gen_arbitrary!(
    Program,
    BlockRecord,
    ChallengeBlockInfo,
    ChallengeChainSubSlot,
    ClassgroupElement,
    Coin,
    CoinRecord,
    CoinSpend,
    CoinState,
    CoinStateFilters,
    CoinStateUpdate,
    EndOfSubSlotBundle,
    FeeEstimate,
    FeeEstimateGroup,
    FeeRate,
    Foliage,
    FoliageBlockData,
    FoliageTransactionBlock,
    FullBlock,
    Handshake,
    HeaderBlock,
    InfusedChallengeChainSubSlot,
    MempoolItemsAdded,
    MempoolItemsRemoved,
    MempoolRemoveReason,
    Message,
    NewCompactVDF,
    NewPeak,
    NewPeakWallet,
    NewSignagePointOrEndOfSubSlot,
    NewTransaction,
    NewUnfinishedBlock,
    NewUnfinishedBlock2,
    chia_protocol::NodeType,
    PartialProof,
    PoolTarget,
    ProofBlockHeader,
    ProofOfSpace,
    ProtocolMessageTypes,
    PuzzleSolutionResponse,
    RecentChainData,
    RegisterForCoinUpdates,
    RegisterForPhUpdates,
    RejectAdditionsRequest,
    RejectBlock,
    RejectBlockHeaders,
    RejectBlocks,
    RejectCoinState,
    RejectHeaderBlocks,
    RejectHeaderRequest,
    RejectPuzzleSolution,
    RejectPuzzleState,
    RejectRemovalsRequest,
    RejectStateReason,
    RemovedMempoolItem,
    RequestAdditions,
    RequestBlock,
    RequestBlockHeader,
    RequestBlockHeaders,
    RequestBlocks,
    RequestChildren,
    RequestCoinState,
    RequestCompactVDF,
    RequestCostInfo,
    RequestFeeEstimates,
    RequestHeaderBlocks,
    RequestMempoolTransactions,
    RequestPeers,
    RequestProofOfWeight,
    RequestPuzzleSolution,
    RequestPuzzleState,
    RequestRemovals,
    RequestRemoveCoinSubscriptions,
    RequestRemovePuzzleSubscriptions,
    RequestSesInfo,
    RequestSignagePointOrEndOfSubSlot,
    RequestTransaction,
    RequestUnfinishedBlock,
    RequestUnfinishedBlock2,
    RespondAdditions,
    RespondBlock,
    RespondBlockHeader,
    RespondBlockHeaders,
    RespondBlocks,
    RespondChildren,
    RespondCoinState,
    RespondCompactVDF,
    RespondCostInfo,
    RespondEndOfSubSlot,
    RespondFeeEstimates,
    RespondHeaderBlocks,
    RespondPeers,
    RespondProofOfWeight,
    RespondPuzzleSolution,
    RespondPuzzleState,
    RespondRemovals,
    RespondRemoveCoinSubscriptions,
    RespondRemovePuzzleSubscriptions,
    RespondSesInfo,
    RespondSignagePoint,
    RespondToCoinUpdates,
    RespondToPhUpdates,
    RespondTransaction,
    RespondUnfinishedBlock,
    RewardChainBlock,
    RewardChainBlockUnfinished,
    RewardChainSubSlot,
    SendTransaction,
    SpendBundle,
    SubEpochChallengeSegment,
    SubEpochData,
    SubEpochSegments,
    SubEpochSummary,
    SubSlotData,
    SubSlotProofs,
    TimestampedPeerInfo,
    TransactionAck,
    TransactionsInfo,
    UnfinishedBlock,
    UnfinishedHeaderBlock,
    VDFInfo,
    VDFProof,
    WeightProof,
);

// ---------------------------------------------------------------------------
// hand-written: primitives

macro_rules! gen_int {
    ($($t:ty => $draw:ident),*) => {
        $(impl Generate for $t {
            fn generate(s: &mut Src<'_>) -> Self {
                match s.below(4) {
                    0 => s.u8() as $t,
                    1 => {
                        const B: [$t; 8] = [
                            0, 1, <$t>::MAX, <$t>::MIN, <$t>::MAX / 2, <$t>::MAX / 2 + 1,
                            0x7f, (<$t>::MAX >> 1) - 1,
                        ];
                        *s.pick(&B)
                    }
                    _ => s.$draw() as $t,
                }
            }
        })*
    };
}

gen_int!(u8 => u8, i8 => u8, u16 => u16, i16 => u16, u32 => u32, i32 => u32,
         u64 => u64, i64 => u64, u128 => u128, i128 => u128);

impl Generate for bool {
    fn generate(s: &mut Src<'_>) -> Self {
        s.bool()
    }
}

impl Generate for () {
    fn generate(_s: &mut Src<'_>) -> Self {}
}

impl Generate for String {
    fn generate(s: &mut Src<'_>) -> Self {
        const PALETTE: [char; 12] = ['a', 'Z', '0', ' ', '/', 'é', 'ü', '€', '日', '😀', '\u{0}', '\n'];
        let n = s.weighted(&[3, 3, 3, 2, 2, 1, 1, 1, 1, 1, 1, 1, 1]);
        let n = if n == 12 { 12 + s.below(60) } else { n };
        (0..n).map(|_| *s.pick(&PALETTE)).collect()
    }
}

fn gen_blob(s: &mut Src<'_>) -> Vec<u8> {
    let n = match s.weighted(&[4, 4, 2, 1]) {
        0 => 0,
        1 => s.range(1, 8),
        2 => s.range(9, 64),
        _ => s.range(65, 400),
    };
    s.bytes(n)
}

impl Generate for Bytes {
    fn generate(s: &mut Src<'_>) -> Self {
        Bytes::from(gen_blob(s))
    }
}

impl<const N: usize> Generate for BytesImpl<N> {
    fn generate(s: &mut Src<'_>) -> Self {
        BytesImpl::new(s.array::<N>())
    }
}

// ---------------------------------------------------------------------------
// hand-written: BLS elements

impl Generate for SecretKey {
    fn generate(s: &mut Src<'_>) -> Self {
        SecretKey::from_seed(&s.array::<32>())
    }
}

impl Generate for PublicKey {
    fn generate(s: &mut Src<'_>) -> Self {
        match s.weighted(&[12, 1, 1]) {
            0 => SecretKey::from_seed(&s.array::<32>()).public_key(),
            1 => {
                // the point at infinity: the canonical all-zero representation, or
                // the same VALUE as it comes out of group arithmetic (pk + (-pk),
                // pk -= pk, 0 * pk: Z = 0 with whatever X and Y were left over)
                match s.below(4) {
                    0 => PublicKey::default(),
                    1 => {
                        let p = SecretKey::from_seed(&s.array::<32>()).public_key();
                        let mut q = p;
                        q.negate();
                        gen_label("g1:computed-infinity");
                        p + &q
                    }
                    2 => {
                        let mut p = SecretKey::from_seed(&s.array::<32>()).public_key();
                        let q = p;
                        p -= &q;
                        gen_label("g1:computed-infinity");
                        p
                    }
                    _ => {
                        let mut p = PublicKey::generator();
                        p.scalar_multiply(&[0u8; 32]);
                        gen_label("g1:computed-infinity");
                        p
                    }
                }
            }
            _ => PublicKey::generator(),
        }
    }
}

impl Generate for Signature {
    fn generate(s: &mut Src<'_>) -> Self {
        match s.weighted(&[12, 1, 1]) {
            0 => {
                let sk = SecretKey::from_seed(&s.array::<32>());
                let n = s.below(5);
                let msg = s.bytes(n);
                sign(&sk, msg)
            }
            1 => match s.below(3) {
                0 => Signature::default(),
                1 => {
                    let sg = sign(&SecretKey::from_seed(&s.array::<32>()), b"x");
                    let mut n = sg.clone();
                    n.negate();
                    gen_label("g2:computed-infinity");
                    sg + &n
                }
                _ => {
                    let mut sg = Signature::generator();
                    sg.scalar_multiply(&[0u8; 32]);
                    gen_label("g2:computed-infinity");
                    sg
                }
            },
            _ => Signature::generator(),
        }
    }
}

impl Generate for GTElement {
    fn generate(s: &mut Src<'_>) -> Self {
        if s.chance(40) {
            // an actual pairing result
            let pk = SecretKey::from_seed(&s.array::<32>()).public_key();
            let sig = sign(&SecretKey::from_seed(&s.array::<32>()), b"gt");
            sig.pair(&pk)
        } else {
            // the wire form is the raw in-memory representation: any 576 bytes
            let seed = s.u64();
            let mut raw = [0u8; 576];
            if seed != 0 {
                raw.copy_from_slice(&expand(seed, 576));
            }
            GTElement::from_bytes(&raw)
        }
    }
}

// ---------------------------------------------------------------------------
// hand-written: combinators

impl<T: Generate> Generate for Option<T> {
    const TAKES_REST: bool = T::TAKES_REST;
    fn generate(s: &mut Src<'_>) -> Self {
        if s.bool() {
            Some(T::generate(s))
        } else {
            None
        }
    }
}

impl<T: Generate> Generate for Vec<T> {
    const TAKES_REST: bool = T::TAKES_REST;
    fn generate(s: &mut Src<'_>) -> Self {
        let n = s.weighted(&[4, 4, 3, 2, 1, 1, 1]);
        let n = if n == 6 && !T::TAKES_REST { 6 + s.below(20) } else { n };
        if T::TAKES_REST {
            (0..n)
                .map(|_| {
                    let mut sub = s.sub(SHARE);
                    T::generate(&mut sub)
                })
                .collect()
        } else {
            (0..n).map(|_| T::generate(s)).collect()
        }
    }
}

impl<T: Generate + Copy + Default, const N: usize> Generate for [T; N] {
    const TAKES_REST: bool = T::TAKES_REST;
    fn generate(s: &mut Src<'_>) -> Self {
        let mut r = [T::default(); N];
        for v in &mut r {
            *v = if T::TAKES_REST {
                let mut sub = s.sub(SHARE);
                T::generate(&mut sub)
            } else {
                T::generate(s)
            };
        }
        r
    }
}

macro_rules! gen_tuple {
    ($n:expr; $($t:ident),+) => {
        impl<$($t: Generate),+> Generate for ($($t,)+) {
            const TAKES_REST: bool = $($t::TAKES_REST)||+;
            fn generate(s: &mut Src<'_>) -> Self {
                let _ = $n;
                ($({
                    if $t::TAKES_REST {
                        let mut sub = s.sub(SHARE);
                        $t::generate(&mut sub)
                    } else {
                        $t::generate(s)
                    }
                },)+)
            }
        }
    };
}

gen_tuple!(2; A, B);
gen_tuple!(3; A, B, C);
gen_tuple!(4; A, B, C, D);

// ---------------------------------------------------------------------------
// hand-written: chia-consensus and chia-datalayer records

macro_rules! gen_struct {
    ($t:ty { $($f:ident),* $(,)? }) => {
        impl Generate for $t {
            fn generate(s: &mut Src<'_>) -> Self {
                $( let $f = Generate::generate(s); )*
                Self { $($f),* }
            }
        }
    };
}

macro_rules! gen_newtype {
    ($($t:ty),*) => { $(impl Generate for $t {
        fn generate(s: &mut Src<'_>) -> Self { Self(Generate::generate(s)) }
    })* };
}

gen_struct!(chia_consensus::owned_conditions::OwnedSpendConditions {
    coin_id, parent_id, puzzle_hash, coin_amount, height_relative, seconds_relative,
    before_height_relative, before_seconds_relative, birth_height, birth_seconds,
    create_coin, agg_sig_me, agg_sig_parent, agg_sig_puzzle, agg_sig_amount,
    agg_sig_puzzle_amount, agg_sig_parent_amount, agg_sig_parent_puzzle, flags,
    execution_cost, condition_cost, fingerprint,
});

gen_struct!(chia_consensus::owned_conditions::OwnedSpendBundleConditions {
    spends, reserve_fee, height_absolute, seconds_absolute, before_height_absolute,
    before_seconds_absolute, agg_sig_unsafe, cost, removal_amount, addition_amount,
    validated_signature, execution_cost, condition_cost, num_atoms, num_pairs, heap_size,
});

gen_struct!(chia_consensus::consensus_constants::ConsensusConstants {
    slot_blocks_target, min_blocks_per_challenge_block, max_sub_slot_blocks, num_sps_sub_slot,
    sub_slot_iters_starting, difficulty_constant_factor, difficulty_starting,
    difficulty_change_max_factor, sub_epoch_blocks, epoch_blocks, significant_bits,
    discriminant_size_bits, number_zero_bits_plot_filter_v1, number_zero_bits_plot_filter_v2,
    min_plot_size_v1, max_plot_size_v1, plot_size_v2, sub_slot_time_target,
    num_sp_intervals_extra, max_future_time2, number_of_timestamps, genesis_challenge,
    agg_sig_me_additional_data, agg_sig_parent_additional_data, agg_sig_puzzle_additional_data,
    agg_sig_amount_additional_data, agg_sig_puzzle_amount_additional_data,
    agg_sig_parent_amount_additional_data, agg_sig_parent_puzzle_additional_data,
    genesis_pre_farm_pool_puzzle_hash, genesis_pre_farm_farmer_puzzle_hash, max_vdf_witness_size,
    mempool_block_buffer, max_coin_amount, max_block_cost_clvm, cost_per_byte,
    weight_proof_threshold, weight_proof_recent_blocks, max_block_count_per_requests,
    blocks_cache_size, max_generator_ref_list_size, pool_sub_slot_iters, hard_fork_height,
    hard_fork2_height, soft_fork8_height, soft_fork9_height, plot_v1_phase_out_epoch_bits,
    plot_filter_128_height, plot_filter_64_height, plot_filter_32_height, min_plot_strength,
    max_plot_strength, plot_filter_v2_first_adjustment_height,
    plot_filter_v2_second_adjustment_height, plot_filter_v2_third_adjustment_height, testnet,
});

gen_newtype!(
    chia_datalayer::TreeIndex,
    chia_datalayer::Parent,
    chia_datalayer::Hash,
    chia_datalayer::KeyId,
    chia_datalayer::ValueId
);

impl Generate for chia_datalayer::NodeType {
    fn generate(s: &mut Src<'_>) -> Self {
        if s.bool() {
            chia_datalayer::NodeType::Leaf
        } else {
            chia_datalayer::NodeType::Internal
        }
    }
}

impl Generate for chia_datalayer::Side {
    fn generate(s: &mut Src<'_>) -> Self {
        if s.bool() {
            chia_datalayer::Side::Right
        } else {
            chia_datalayer::Side::Left
        }
    }
}

gen_struct!(chia_datalayer::NodeMetadata { node_type, dirty });
gen_struct!(chia_datalayer::InternalNode { hash, parent, left, right });
gen_struct!(chia_datalayer::LeafNode { hash, parent, key, value });
gen_struct!(chia_datalayer::ProofOfInclusionLayer { other_hash_side, other_hash, combined_hash });
gen_struct!(chia_datalayer::ProofOfInclusion { node_hash, layers });
