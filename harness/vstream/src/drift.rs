//! Registry-drift detector: a textual scan of `<repo>/crates/*/src` for
//! `#[streamable…]`, `derive(…Streamable…)` and `impl … Streamable for …`,
//! compared with the registry. A type found in the tree but absent from the
//! registry is *reported* (label / warning in the evidence) — never a
//! violation: the checks simply do not cover it yet.

use std::collections::BTreeSet;
use std::path::{Path, PathBuf};

use crate::registry;

#[derive(Debug, Clone, Default)]
pub struct DriftReport {
    /// (crate, type name) of every Streamable declaration found in the tree
    pub found: Vec<(String, String)>,
    /// `crate::Type` found in the tree without a registry entry
    pub uncovered: Vec<String>,
    /// number of source files scanned (0 ⇒ the tree was not readable)
    pub files_scanned: usize,
}

fn rs_files(dir: &Path, out: &mut Vec<PathBuf>) {
    let Ok(rd) = std::fs::read_dir(dir) else { return };
    let mut entries: Vec<PathBuf> = rd.flatten().map(|e| e.path()).collect();
    entries.sort();
    for p in entries {
        let name = p.file_name().and_then(|n| n.to_str()).unwrap_or("");
        if p.is_dir() {
            if matches!(name, "target" | "fuzz" | "tests" | "benches" | "examples") {
                continue;
            }
            rs_files(&p, out);
        } else if name.ends_with(".rs") {
            out.push(p);
        }
    }
}

fn ident_after<'a>(line: &'a str, kw: &str) -> Option<&'a str> {
    let idx = line.find(kw)?;
    // keyword must start a token
    if idx > 0 && line.as_bytes()[idx - 1].is_ascii_alphanumeric() {
        return None;
    }
    let rest = line[idx + kw.len()..].trim_start();
    let end = rest
        .find(|c: char| !(c.is_ascii_alphanumeric() || c == '_'))
        .unwrap_or(rest.len());
    if end == 0 {
        None
    } else {
        Some(&rest[..end])
    }
}

fn has_plain_streamable(line: &str) -> bool {
    // the token `Streamable` not part of `PyStreamable` / `chia_py_streamable…`
    let mut from = 0;
    while let Some(i) = line[from..].find("Streamable") {
        let at = from + i;
        let before = line[..at].chars().next_back();
        let after = line[at + "Streamable".len()..].chars().next();
        let ok_before = !matches!(before, Some(c) if c.is_ascii_alphanumeric() || c == '_');
        let ok_after = !matches!(after, Some(c) if c.is_ascii_alphanumeric() || c == '_');
        if ok_before && ok_after {
            return true;
        }
        from = at + 1;
    }
    false
}

/// normalise a type expression to the registry's coarse key
fn shape(t: &str) -> String {
    let t = t.trim();
    if t.starts_with('(') {
        if t == "()" {
            return "()".into();
        }
        let mut depth = 0;
        let mut commas = 0;
        for c in t.chars() {
            match c {
                '(' | '<' | '[' => depth += 1,
                ')' | '>' | ']' => depth -= 1,
                ',' if depth == 1 => commas += 1,
                _ => {}
            }
        }
        return format!("tuple{}", commas + 1);
    }
    if t.starts_with('[') {
        return "array".into();
    }
    let base = t.split('<').next().unwrap_or(t).trim();
    let base = base.rsplit("::").next().unwrap_or(base);
    match base {
        "Bytes32" | "Bytes48" | "Bytes96" | "Bytes100" => "BytesImpl".into(),
        "G1" | "G1Element" => "PublicKey".into(),
        "G2" | "G2Element" => "Signature".into(),
        b => b.to_string(),
    }
}

pub fn scan(repo_root: &str) -> DriftReport {
    let crates = Path::new(repo_root).join("crates");
    let mut rep = DriftReport::default();
    let mut found: BTreeSet<(String, String)> = BTreeSet::new();
    let Ok(rd) = std::fs::read_dir(&crates) else { return rep };
    let mut crate_dirs: Vec<PathBuf> = rd.flatten().map(|e| e.path()).filter(|p| p.is_dir()).collect();
    crate_dirs.sort();
    for cd in crate_dirs {
        let krate = cd.file_name().and_then(|n| n.to_str()).unwrap_or("").to_string();
        if krate.contains("macro") {
            continue; // proc-macro crates only contain the quoted impl templates
        }
        let mut files = vec![];
        rs_files(&cd.join("src"), &mut files);
        for f in files {
            let Ok(text) = std::fs::read_to_string(&f) else { continue };
            rep.files_scanned += 1;
            let lines: Vec<&str> = text.lines().collect();
            for (i, raw) in lines.iter().enumerate() {
                let line = raw.trim();
                if line.starts_with("//") {
                    continue;
                }
                let test_only = (i.saturating_sub(3)..i).any(|j| lines[j].contains("#[cfg(test)]"));
                let mut decl_follows = false;
                if line.starts_with("#[streamable") {
                    decl_follows = true;
                } else if line.contains("derive(") && has_plain_streamable(line) {
                    decl_follows = true;
                } else if line.contains("streamable_primitive!(") && !line.starts_with("macro_rules") {
                    if let Some(t) = ident_after(line, "streamable_primitive!(") {
                        found.insert((krate.clone(), t.to_string()));
                    }
                } else if line.starts_with("impl") && line.contains("Streamable for ") {
                    let after = line.split("Streamable for ").nth(1).unwrap_or("");
                    let ty = after.split('{').next().unwrap_or(after);
                    let ty = ty.split(" where").next().unwrap_or(ty).trim();
                    if !ty.is_empty() && !ty.starts_with('#') && !ty.starts_with('$') && !test_only {
                        found.insert((krate.clone(), shape(ty)));
                    }
                }
                if decl_follows && !test_only {
                    for l2 in lines.iter().skip(i + 1).take(14) {
                        let l2 = l2.trim();
                        if let Some(n) = ident_after(l2, "struct ").or_else(|| ident_after(l2, "enum ")) {
                            found.insert((krate.clone(), n.to_string()));
                            break;
                        }
                        if l2.is_empty() || l2.starts_with("fn ") || l2.starts_with("impl") {
                            break;
                        }
                    }
                }
            }
        }
    }
    let mut covered: BTreeSet<(String, String)> = BTreeSet::new();
    for e in registry() {
        let n = e.name.replace("datalayer::", "");
        covered.insert((e.krate.to_string(), shape(&n)));
    }
    for (k, n) in &found {
        if !covered.contains(&(k.clone(), n.clone())) {
            rep.uncovered.push(format!("{k}::{n}"));
        }
    }
    rep.found = found.into_iter().collect();
    rep
}
