//! Structural visitor over Streamable values.
//!
//! Three chia-protocol codecs are hand-written and pack a *version* into an
//! `Option` prefix byte (`ProofOfSpace`, `FullBlock`, `UnfinishedBlock`); not
//! every combination of their (public) fields is representable on the wire.
//! `Walk` reaches every embedded instance of those three types (and every
//! `Program`) through every container that embeds them, so that
//!   * the generator's fix-up pass can move a derived-`Arbitrary` value into
//!     the well-formed subset (`gen::Fixer`),
//!   * the hash oracle can find the version-2 proofs of space whose hash
//!     pre-image is not the plain encoding (`hashexp`),
//!   * C14 can substitute adversarial `Program` bytes in place.
//!
//! The container table below is maintained by hand. A *missing* row is
//! self-revealing: the derived `Arbitrary` picks `version` uniformly in 0..=255,
//! so an un-fixed container fails to encode (`to_bytes() = Err`) almost always
//! and the C13 round-trip check reports a harness error on the unchanged tree.

use chia_protocol::*;

pub trait Walker {
    fn pos(&mut self, _p: &mut ProofOfSpace) {}
    fn full_block(&mut self, _b: &mut FullBlock) {}
    fn unfinished_block(&mut self, _b: &mut UnfinishedBlock) {}
    fn program(&mut self, _p: &mut Program) {}
}

pub trait Walk {
    /// does a value of this type possibly embed one of the four visited kinds?
    /// (decides whether the generator reserves fix-up choice bytes)
    const HAS_FIX: bool = false;
    fn walk(&mut self, _w: &mut dyn Walker) {}
}

// ---- the four visited kinds ------------------------------------------------

impl Walk for ProofOfSpace {
    const HAS_FIX: bool = true;
    fn walk(&mut self, w: &mut dyn Walker) {
        w.pos(self);
    }
}

impl Walk for Program {
    const HAS_FIX: bool = true;
    fn walk(&mut self, w: &mut dyn Walker) {
        w.program(self);
    }
}

impl Walk for FullBlock {
    const HAS_FIX: bool = true;
    fn walk(&mut self, w: &mut dyn Walker) {
        w.full_block(self);
        self.reward_chain_block.walk(w);
        self.transactions_generator.walk(w);
    }
}

impl Walk for UnfinishedBlock {
    const HAS_FIX: bool = true;
    fn walk(&mut self, w: &mut dyn Walker) {
        w.unfinished_block(self);
        self.reward_chain_block.walk(w);
        self.transactions_generator.walk(w);
    }
}

// ---- combinators -----------------------------------------------------------

impl<T: Walk> Walk for Option<T> {
    const HAS_FIX: bool = T::HAS_FIX;
    fn walk(&mut self, w: &mut dyn Walker) {
        if let Some(v) = self {
            v.walk(w);
        }
    }
}

impl<T: Walk> Walk for Vec<T> {
    const HAS_FIX: bool = T::HAS_FIX;
    fn walk(&mut self, w: &mut dyn Walker) {
        if T::HAS_FIX {
            for v in self {
                v.walk(w);
            }
        }
    }
}

impl<T: Walk, const N: usize> Walk for [T; N] {
    const HAS_FIX: bool = T::HAS_FIX;
    fn walk(&mut self, w: &mut dyn Walker) {
        if T::HAS_FIX {
            for v in self {
                v.walk(w);
            }
        }
    }
}

impl<A: Walk, B: Walk> Walk for (A, B) {
    const HAS_FIX: bool = A::HAS_FIX || B::HAS_FIX;
    fn walk(&mut self, w: &mut dyn Walker) {
        self.0.walk(w);
        self.1.walk(w);
    }
}

impl<A: Walk, B: Walk, C: Walk> Walk for (A, B, C) {
    const HAS_FIX: bool = A::HAS_FIX || B::HAS_FIX || C::HAS_FIX;
    fn walk(&mut self, w: &mut dyn Walker) {
        self.0.walk(w);
        self.1.walk(w);
        self.2.walk(w);
    }
}

impl<A: Walk, B: Walk, C: Walk, D: Walk> Walk for (A, B, C, D) {
    const HAS_FIX: bool = A::HAS_FIX || B::HAS_FIX || C::HAS_FIX || D::HAS_FIX;
    fn walk(&mut self, w: &mut dyn Walker) {
        self.0.walk(w);
        self.1.walk(w);
        self.2.walk(w);
        self.3.walk(w);
    }
}

// ---- containers: (type, field path) pairs ----------------------------------

macro_rules! walk_fields {
    ($($t:ty { $($f:ident),+ })*) => {
        $(impl Walk for $t {
            const HAS_FIX: bool = true;
            fn walk(&mut self, w: &mut dyn Walker) {
                $( self.$f.walk(w); )+
            }
        })*
    };
}

walk_fields! {
    // proof of space
    RewardChainBlockUnfinished { proof_of_space }
    RewardChainBlock { proof_of_space }
    ChallengeBlockInfo { proof_of_space }
    SubSlotData { proof_of_space }
    SubEpochChallengeSegment { sub_slots }
    SubEpochSegments { challenge_segments }
    HeaderBlock { reward_chain_block }
    UnfinishedHeaderBlock { reward_chain_block }
    RecentChainData { recent_chain_data }
    ProofBlockHeader { reward_chain_block }
    WeightProof { sub_epoch_segments, recent_chain_data }
    RespondProofOfWeight { wp }
    RespondBlockHeader { header_block }
    RespondBlockHeaders { header_blocks }
    RespondHeaderBlocks { header_blocks }
    // blocks
    RespondBlock { block }
    RespondBlocks { blocks }
    RespondUnfinishedBlock { unfinished_block }
    // programs
    CoinSpend { puzzle_reveal, solution }
    SpendBundle { coin_spends }
    PuzzleSolutionResponse { puzzle, solution }
    RespondPuzzleSolution { response }
    SendTransaction { transaction }
    RespondTransaction { transaction }
}

// ---- everything else: nothing to visit -------------------------------------

#[macro_export]
macro_rules! walk_leaf {
    ($($t:ty),* $(,)?) => { $(impl $crate::walk::Walk for $t {})* };
}

walk_leaf!(u8, i8, u16, i16, u32, i32, u64, i64, u128, i128, bool, String, ());
walk_leaf!(Bytes, Bytes32, Bytes48, Bytes96, Bytes100);
walk_leaf!(
    chia_bls::PublicKey,
    chia_bls::Signature,
    chia_bls::SecretKey,
    chia_bls::GTElement
);
walk_leaf!(
    chia_consensus::owned_conditions::OwnedSpendConditions,
    chia_consensus::owned_conditions::OwnedSpendBundleConditions,
    chia_consensus::consensus_constants::ConsensusConstants
);
walk_leaf!(
    chia_datalayer::TreeIndex,
    chia_datalayer::Parent,
    chia_datalayer::Hash,
    chia_datalayer::KeyId,
    chia_datalayer::ValueId,
    chia_datalayer::NodeType,
    chia_datalayer::NodeMetadata,
    chia_datalayer::InternalNode,
    chia_datalayer::LeafNode,
    chia_datalayer::Side,
    chia_datalayer::ProofOfInclusionLayer,
    chia_datalayer::ProofOfInclusion
);
walk_leaf!(
    BlockRecord,
    ChallengeChainSubSlot,
    ClassgroupElement,
    Coin,
    CoinRecord,
    CoinState,
    CoinStateFilters,
    CoinStateUpdate,
    EndOfSubSlotBundle,
    FeeEstimate,
    FeeEstimateGroup,
    FeeRate,
    Foliage,
    FoliageBlockData,
    FoliageTransactionBlock,
    Handshake,
    InfusedChallengeChainSubSlot,
    MempoolItemsAdded,
    MempoolItemsRemoved,
    MempoolRemoveReason,
    Message,
    NewCompactVDF,
    NewPeak,
    NewPeakWallet,
    NewSignagePointOrEndOfSubSlot,
    NewTransaction,
    NewUnfinishedBlock,
    NewUnfinishedBlock2,
    chia_protocol::NodeType,
    PartialProof,
    PoolTarget,
    ProtocolMessageTypes,
    RegisterForCoinUpdates,
    RegisterForPhUpdates,
    RejectAdditionsRequest,
    RejectBlock,
    RejectBlockHeaders,
    RejectBlocks,
    RejectCoinState,
    RejectHeaderBlocks,
    RejectHeaderRequest,
    RejectPuzzleSolution,
    RejectPuzzleState,
    RejectRemovalsRequest,
    RejectStateReason,
    RemovedMempoolItem,
    RequestAdditions,
    RequestBlock,
    RequestBlockHeader,
    RequestBlockHeaders,
    RequestBlocks,
    RequestChildren,
    RequestCoinState,
    RequestCompactVDF,
    RequestCostInfo,
    RequestFeeEstimates,
    RequestHeaderBlocks,
    RequestMempoolTransactions,
    RequestPeers,
    RequestProofOfWeight,
    RequestPuzzleSolution,
    RequestPuzzleState,
    RequestRemovals,
    RequestRemoveCoinSubscriptions,
    RequestRemovePuzzleSubscriptions,
    RequestSesInfo,
    RequestSignagePointOrEndOfSubSlot,
    RequestTransaction,
    RequestUnfinishedBlock,
    RequestUnfinishedBlock2,
    RespondAdditions,
    RespondChildren,
    RespondCoinState,
    RespondCompactVDF,
    RespondCostInfo,
    RespondEndOfSubSlot,
    RespondFeeEstimates,
    RespondPeers,
    RespondPuzzleState,
    RespondRemovals,
    RespondRemoveCoinSubscriptions,
    RespondRemovePuzzleSubscriptions,
    RespondSesInfo,
    RespondSignagePoint,
    RespondToCoinUpdates,
    RespondToPhUpdates,
    RewardChainSubSlot,
    SubEpochData,
    SubEpochSummary,
    SubSlotProofs,
    TimestampedPeerInfo,
    TransactionAck,
    TransactionsInfo,
    VDFInfo,
    VDFProof,
);
