#!/bin/bash
# usage: tools/run_seeded.sh <seed-id> <Cxx-check>...   — runs the quick tier of the given checks against seeded/<seed-id>/patch.diff
cd /verif
sid=$1; shift
for pid in "$@"; do
  out=$(tools/mutant_test.sh $pid seeded/$sid/patch.diff --no-evidence 2>&1)
  rc=$(echo "$out" | grep -o "MUTANT-EXIT=[0-9]*\|MUTANT-BUILD-FAILED\|PATCH-FAILED" | tail -1)
  sig=$(echo "$out" | grep -o "^failure in [^ ]*: [^ ]*" | head -3 | tr '\n' ';')
  echo "$(date +%H:%M) seed=$sid check=$pid $rc $sig" >> seeded/RESULTS.txt
done
