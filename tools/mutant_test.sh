#!/bin/bash
# usage: tools/mutant_test.sh <Cxx> <patch.diff> [tier-args...]
# Applies a patch (diff -u against /repo, -p1) to a scratch copy of /repo, builds the
# property's harness against the copy and runs the quick tier. Never touches /repo.
# Scratch: /var/tmp/mut<slot>/{repo,h,target,verif}. Remove with: rm -rf /var/tmp/mut*
set -u
# serialize users of the scratch tree
# MUT_SLOT selects an independent scratch tree (/var/tmp/mut<slot>) so that two queues can run side by side
SLOT=${MUT_SLOT:-}
exec 9>/var/tmp/mut$SLOT.lock; flock 9
PID=$1; PATCH=$(realpath "$2"); shift 2
M=/var/tmp/mut$SLOT
mkdir -p $M
rsync -a --delete --exclude target --exclude .git /repo/ $M/repo/
# rsync restores the original mtimes of files the previous mutant changed; cargo's
# freshness check is mtime based, so touch them or the stale mutated build survives
# (every file EVER patched in this slot, not just the previous one: a crate that is built in a
# feature variant only one check uses — c20's py-bindings, c15's verif-hooks — keeps its stale
# artifact across any number of runs of other checks)
touch $M/all_patched
while read f; do [ -f "$M/repo/$f" ] && touch "$M/repo/$f"; done < $M/all_patched
grep '^+++ b/' "$PATCH" | sed 's#^+++ b/##' | cut -f1 > $M/last_patched
cat $M/last_patched >> $M/all_patched; sort -u -o $M/all_patched $M/all_patched
# VERIF_HARNESS_SRC: run an older snapshot of the harness (pre-strengthening measurements)
rsync -a --delete --exclude target ${VERIF_HARNESS_SRC:-/verif/harness}/ $M/h/
find $M/h -name Cargo.toml | xargs sed -i "s#/repo/#$M/repo/#g"
mkdir -p $M/verif && rsync -a --delete /verif/regress $M/verif/ 2>/dev/null; cp /verif/known_findings.json $M/verif/
( cd $M/repo && patch -p1 --no-backup-if-mismatch < "$PATCH" ) || { echo "PATCH-FAILED"; exit 3; }
crate=$(echo $PID | tr A-Z a-z)
for i in $(seq 1 20); do
  out=$(cd $M/h && CARGO_NET_OFFLINE=true CARGO_TARGET_DIR=$M/target cargo build --release -p $crate 2>&1); rc=$?
  if echo "$out" | grep -q "failed to load manifest"; then sleep 10; else break; fi
done
if [ $rc -ne 0 ]; then echo "$out" | grep -E "^error" -A10 | head -40; echo "MUTANT-BUILD-FAILED"; exit 4; fi
VERIF_ROOT=$M/verif $M/target/release/$crate quick "$@" 2>&1 | tee $M/last_run_$PID.log | tail -8
echo "MUTANT-EXIT=${PIPESTATUS[0]}"
