#!/usr/bin/env python3
"""Render the sensitivity results (planted mutants and independently authored seeded changes) as markdown."""
import json, os, re, glob, collections
ROOT='/verif'
def parse(path):
    rows=[]
    if not os.path.exists(path): return rows
    for l in open(path):
        l=l.strip()
        if not l: continue
        rows.append(l)
    return rows
import sys, io
_embed = '--embed' in sys.argv
if _embed:
    _buf = io.StringIO(); _real = sys.stdout; sys.stdout = _buf
print("#### Planted mutants (tools/run_mutants.sh; quick tier, scale 0.3 unless noted)\n")
print("| check | mutant | result | first signature |")
print("|---|---|---|---|")
last={}
for l in parse(f'{ROOT}/mutants/RESULTS.txt'):
    m=re.match(r'(\S+) (\S+) (\S+) (\S*)\s*(.*)',l)
    if not m: continue
    t,pid,name,rc,rest=m.groups()
    sig=re.findall(r'failure in \S+ (\S+?);',rest)
    note=' (full scale)' if 'rerun full scale' in rest else ''
    last[(pid,name)]=(rc,sig[0] if sig else '',note)
for (pid,name),(rc,sig,note) in sorted(last.items()):
    res={'MUTANT-EXIT=1':'caught','MUTANT-EXIT=0':'**missed**','MUTANT-EXIT=2':'harness error'}.get(rc,rc)
    print(f"| {pid} | {name} | {res}{note} | `{sig}` |")
print("\n#### Independently authored breaking changes (seeded/<id>/)\n")
print("| seed | what it does (author's summary) | needs to manifest | checks run → result |")
print("|---|---|---|---|")
res=collections.defaultdict(list)
for l in parse(f'{ROOT}/seeded/RESULTS.txt'):
    m=re.match(r'\S+ seed=(\S+) check=(\S+) (\S*)\s*(.*)',l)
    if not m: continue
    sid,chk,rc,rest=m.groups()
    sig=re.findall(r'failure in \S+ (\S+?);',rest)
    r={'MUTANT-EXIT=1':'caught','MUTANT-EXIT=0':'not caught','MUTANT-EXIT=2':'harness error'}.get(rc,rc or '?')
    res[sid].append(f"{chk}: {r}"+(f" (`{sig[0]}`)" if sig else ''))
for d in sorted(glob.glob(f'{ROOT}/seeded/C*')):
    sid=os.path.basename(d)
    try: m=json.load(open(f'{d}/meta.json'))
    except Exception: continue
    s=m.get('summary','').replace('|','/').replace('\n',' ')[:200]
    n=m.get('needs_to_manifest','').replace('|','/').replace('\n',' ')[:160]
    print(f"| {sid} | {s} | {n} | {'; '.join(res.get(sid,['(not run)']))} |")

print("\n#### Results before the strengthening they triggered (seeded/PRE.txt; harness snapshot of the commit before)\n")
print("| patch | check | result |")
print("|---|---|---|")
for l in parse(f'{ROOT}/seeded/PRE.txt'):
    m=re.match(r'\S+ PRE-STRENGTHENING(\(round\d\))? check=(\S+) patch=(\S+) (\S*)\s*(.*)',l)
    if not m: continue
    _,chk,patch,rc,rest=m.groups()
    sid=re.sub(r'.*/seed-(C\d+)/SEED_OUT(\d*)/patch.diff', lambda k: k.group(1)+('-'+k.group(2) if k.group(2) else ''), patch)
    sig=re.findall(r'failure in \S+ (\S+?);',rest)
    r={'MUTANT-EXIT=1':'caught','MUTANT-EXIT=0':'not caught','MUTANT-EXIT=2':'exit 2 (inconclusive: coverage floor)'}.get(rc,rc or '?')
    print(f"| {sid} | {chk} | {r}"+(f" (`{sig[0]}`)" if sig else '')+" |")
if _embed:
    sys.stdout = _real
    d=open(f'{ROOT}/DESIGN.md').read()
    a=d.index('<!-- TABLES:BEGIN -->')+len('<!-- TABLES:BEGIN -->'); b=d.index('<!-- TABLES:END -->')
    d=d[:a]+"\n\n"+_buf.getvalue()+"\n"+d[b:]
    open(f'{ROOT}/DESIGN.md','w').write(d)
    print("tables embedded in DESIGN.md")
