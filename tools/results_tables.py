#!/usr/bin/env python3
"""Render the sensitivity results (planted mutants and independently authored seeded changes) as markdown."""
import json, os, re, glob, collections
ROOT='/verif'
def parse(path):
    rows=[]
    if not os.path.exists(path): return rows
    for l in open(path):
        l=l.strip()
        if not l: continue
        rows.append(l)
    return rows
print("#### Planted mutants (tools/run_mutants.sh; quick tier, scale 0.3 unless noted)\n")
print("| check | mutant | result | first signature |")
print("|---|---|---|---|")
last={}
for l in parse(f'{ROOT}/mutants/RESULTS.txt'):
    m=re.match(r'(\S+) (\S+) (\S+) (\S*)\s*(.*)',l)
    if not m: continue
    t,pid,name,rc,rest=m.groups()
    sig=re.findall(r'failure in \S+ (\S+?);',rest)
    note=' (full scale)' if 'rerun full scale' in rest else ''
    last[(pid,name)]=(rc,sig[0] if sig else '',note)
for (pid,name),(rc,sig,note) in sorted(last.items()):
    res={'MUTANT-EXIT=1':'caught','MUTANT-EXIT=0':'**missed**','MUTANT-EXIT=2':'harness error'}.get(rc,rc)
    print(f"| {pid} | {name} | {res}{note} | `{sig}` |")
print("\n#### Independently authored breaking changes (seeded/<id>/)\n")
print("| seed | what it does (author's summary) | needs to manifest | checks run → result |")
print("|---|---|---|---|")
res=collections.defaultdict(list)
for l in parse(f'{ROOT}/seeded/RESULTS.txt'):
    m=re.match(r'\S+ seed=(\S+) check=(\S+) (\S*)\s*(.*)',l)
    if not m: continue
    sid,chk,rc,rest=m.groups()
    sig=re.findall(r'failure in \S+ (\S+?);',rest)
    r={'MUTANT-EXIT=1':'caught','MUTANT-EXIT=0':'not caught','MUTANT-EXIT=2':'harness error'}.get(rc,rc or '?')
    res[sid].append(f"{chk}: {r}"+(f" (`{sig[0]}`)" if sig else ''))
for d in sorted(glob.glob(f'{ROOT}/seeded/C*')):
    sid=os.path.basename(d)
    try: m=json.load(open(f'{d}/meta.json'))
    except Exception: continue
    s=m.get('summary','').replace('|','/')[:260]
    n=m.get('needs_to_manifest','').replace('|','/')[:220]
    print(f"| {sid} | {s} | {n} | {'; '.join(res.get(sid,['(not run)']))} |")
