#!/bin/bash
# usage: tools/confirm_seed.sh <Cxx> [worktree]
# Confirms a sub-agent-authored breaking change in its scratch worktree:
#  demo passes without the patch, existing tests of the touched crates pass with it, demo fails with it.
# Then copies patch/demo/meta to /verif/seeded/<Cxx>/ (meta.json gets a "confirmed" block).
PID=$1; WT=${2:-/tmp/seed-$PID}; ROUND=${3:-}; OUT=$WT/SEED_OUT$ROUND; SID=$PID${ROUND:+-$ROUND}
[ -f $OUT/patch.diff ] || { echo "no $OUT/patch.diff"; exit 2; }
cd $WT || exit 2
git checkout -- . 2>/dev/null
DEMO_CMD=$(python3 -c "import json,re;print(re.split(r'\s+\(', json.load(open('$OUT/meta.json'))['demo_cmd'])[0])")
TEST_CMD=$(python3 -c "import json,re;print(re.split(r'\s+\(', json.load(open('$OUT/meta.json'))['existing_tests_cmd'])[0])")
# untracked files = the demonstration; they are moved away while the EXISTING tests run
UNTRACKED=$(git ls-files --others --exclude-standard | grep -v '^SEED_OUT' | grep -v '^target/')
echo "== demo without patch: $DEMO_CMD"
( eval "$DEMO_CMD" ) > $OUT/confirm_demo_without.log 2>&1; r0=$?
echo "   exit $r0"
git apply $OUT/patch.diff || { echo "PATCH DOES NOT APPLY"; exit 3; }
echo "== existing tests with patch: $TEST_CMD"
mkdir -p $OUT/stash; for f in $UNTRACKED; do mkdir -p $OUT/stash/$(dirname $f); mv $f $OUT/stash/$f; done
( eval "$TEST_CMD" ) > $OUT/confirm_tests_with.log 2>&1; r1=$?
for f in $UNTRACKED; do mv $OUT/stash/$f $f; done
echo "   exit $r1: $(grep -E '^test result' $OUT/confirm_tests_with.log | head -3 | tr '\n' ' ')"
echo "== demo with patch"
( eval "$DEMO_CMD" ) > $OUT/confirm_demo_with.log 2>&1; r2=$?
echo "   exit $r2"
git checkout -- .
python3 - <<PY
import json
m=json.load(open('$OUT/meta.json'))
m['confirmed']={'demo_without_patch_exit':$r0,'existing_tests_with_patch_exit':$r1,'demo_with_patch_exit':$r2,
 'existing_tests_summary':[l.strip() for l in open('$OUT/confirm_tests_with.log',errors='replace') if l.startswith('test result')][:4]}
json.dump(m,open('$OUT/meta.json','w'),indent=1)
PY
if [ $r0 -eq 0 ] && [ $r1 -eq 0 ] && [ $r2 -ne 0 ]; then
  mkdir -p /verif/seeded/$SID && cp -r $OUT/patch.diff $OUT/meta.json /verif/seeded/$SID/ && cp -r $OUT/demo* /verif/seeded/$SID/ 2>/dev/null
  echo "CONFIRMED $SID -> /verif/seeded/$SID"
else
  echo "NOT CONFIRMED $PID (demo_without=$r0 tests_with=$r1 demo_with=$r2)"
fi
