#!/usr/bin/env python3
"""Regenerates /verif/MANIFEST.json from the table below (kept in one place so
that the manifest is always schema-valid)."""
import json, os
ROOT = os.path.dirname(os.path.dirname(os.path.abspath(__file__)))

# id -> (technique, level text, level note, design ref)
CHECKS = {
 "C11": ("bounded-exhaustive enumeration + proptest random values against an arithmetic (num-bigint) reference and the interpreter's own encoder",
         "Every integer encoder/decoder in the tree (Coin::coin_id, u64_to_bytes, clvm_bytes_len, clvm-traits ints of every width, compute_coin_id and the AGG_SIG_AMOUNT suffix as consensus reports them, sanitize_uint widths 4/8) is compared with an arithmetic reference and with clvmr's Allocator::new_number on: all boundary values (2^k±3, all 1-/2-bit patterns, all 16-bit values), every value below 2^27 (quick) / 2^32 (thorough), millions of random values of every bit length, every atom of length ≤2 and every atom of length 3..10 over {00,01,7f,80,ff}. Exhaustive on those finite sub-domains, sampled elsewhere; a moved ladder threshold is caught because the thresholds themselves are enumerated.",
         "Trusts num-bigint's two's-complement conversion and clvmr's Allocator (cross-checked against each other in every case). Private helpers are observed through their public callers.",
         "DESIGN.md section 4, C11"),
}

NOT_YET = "check not built yet in this revision of /verif (work in progress; see DESIGN.md section 4 for the planned generated-input check)"

def main():
    props = [json.loads(l) for l in open(os.path.join(ROOT, "properties.jsonl"))]
    checks, na = [], []
    for p in props:
        pid = p["id"]
        if pid in CHECKS:
            tech, text, note, ref = CHECKS[pid]
            checks.append({
                "property_id": pid,
                "quick_cmd": f"./check {pid} quick",
                "thorough_cmd": f"./check {pid} thorough",
                "evidence_file": f"/verif/evidence/{pid}.json",
                "replay_cmd_template": "./check --replay {path}",
                "engine": "vcore",
                "level_claimed": {"category": "exploration", "text": text, "design_ref": ref},
                "level_note": note,
                "technique": tech,
            })
        else:
            na.append({"property_id": pid, "reason": NOT_YET})
    m = {
        "version": 1,
        "setup_cmd": "./setup.sh",
        "hooks": {
            "guard": "cargo feature chia-bls/verif-hooks",
            "enable": "the harness crates that need the hooks depend on /repo/crates/chia-bls with features = [\"verif-hooks\"]; no workspace member of /repo enables it",
            "baseline_off_cmd": "cd /repo && cargo test --workspace --no-fail-fast --offline",
            "source_commits": HOOK_COMMITS,
            "add_only": True,
        },
        "engines": [
            {"name": "vcore", "path": "/verif/harness/vcore", "serves_properties": sorted(CHECKS),
             "kind_free_text": "property-based testing engine: every case is a pure function of a byte choice sequence; proptest TestRunner (fixed seed from VERIF_SEED, no persistence) generates and shrinks the bytes, deterministic enumerators cover finite sub-domains, libFuzzer targets in /verif/fuzz drive the same case functions; replay file = the bytes"},
        ],
        "checks": checks,
        "not_applicable": na,
        "notes": "Single driver ./check <id> <tier>; rebuilds the harness against /repo's working tree via path dependencies. Exit 2 = inconclusive/harness problem, never a violation. Known findings: /verif/known_findings.json.",
    }
    if not na:
        del m["not_applicable"]
    json.dump(m, open(os.path.join(ROOT, "MANIFEST.json"), "w"), indent=1, ensure_ascii=False)
    print("MANIFEST.json written:", len(checks), "checks,", len(na), "not_applicable")

HOOK_COMMITS = []

if __name__ == "__main__":
    main()
