#!/usr/bin/env python3
"""Regenerates /verif/MANIFEST.json from the table below (kept in one place so
that the manifest is always schema-valid)."""
import json, os
ROOT = os.path.dirname(os.path.dirname(os.path.abspath(__file__)))

# id -> (technique, level text, level note, design ref)
CHECKS = {
 "C01": ("proptest + libFuzzer over a byte choice sequence; differential against an independent reference model of the condition rules",
         "parse_spends::<EmptyVisitor|MempoolVisitor> followed by OwnedSpendBundleConditions::from is compared, verdict and summary field by field, with vcore::model::conditions (written from the README implementation notes, flag doc-comments, eligibility comments and cost constants; evaluates the whole input, so it is independent of the implementation's evaluation order) on generated bundle trees: valid-by-construction bundles over small pools (so cross-spend relations match or nearly match) plus labelled condition-, spend- and list-level mutations, every subset of the four strictness/fork flags, signature validation on in ~10% with a harness-computed aggregate signature, and four allocator representations of the same value (canonical atoms, small numbers, substr/concat heap atoms, DAG vs expanded pairs). Exploration: hundreds of thousands of distinct non-trivial cases per quick run; cannot prove absence. A second sub-check compares the model with run_spendbundle and run_block_generator2 on real programs (identity and run-time-evaluating puzzles); message key-confusion templates, 1-70 KB atoms and 1-2 KiB out-of-range integers are part of the generator.",
         "Trusts the reference model as the statement of the rules (error codes are not compared); public-key validity is delegated to chia-bls (decided by C16); the fast-forward bit is not compared for spends mixing ASSERT_MY_PARENT_ID with unrecognised opcodes.",
         "DESIGN.md sections 9.2/9.6 and 4, C01"),
 "C02": ("proptest; invariant asserted on every accepted result of five entry points, with generators constructing violations",
         "The conservation/uniqueness invariant (Σ created + reserved fee ≤ Σ spent in 128-bit arithmetic, distinct coin ids, no duplicate (puzzle hash, amount) outputs per spend, totals equal the sums, coin id = sha256 of the canonical fields, puzzle hash = reference tree hash of the reveal) is checked on every Ok of parse_spends, run_block_generator, run_block_generator2, run_spendbundle and validate_clvm_and_signature. A dedicated frontier generator builds would-be violations: sums past 2^64, outputs whose sum modulo 2^64 is affordable while the true sum is not, reserve fees wrapping, balance/fee off by one, duplicate outputs differing only in hint, the same coin at two positions, up to 3000 spends. Frontier kinds include one spend with 1000-2500 outputs and amounts padded to the parser's length limit.",
         "Only accepted results are examined; puzzle hashes are compared with the harness's reference tree hash.",
         "DESIGN.md sections 9.2/9.6 and 4, C02"),
 "C03": ("proptest; per-assertion arithmetic model of every lock/birth condition in a generated chain state",
         "For generated chain states and bundles of the 10 lock/birth kinds with arguments drawn around the state (boundary ±1, 0, type maximum, negative, oversized, redundant-zero, duplicates, opposing pairs, ephemeral parent/child), the implementation passes (parse_spends Ok and check_time_locks(nowrap) Ok) iff every original assertion evaluated separately over i128 with saturating sums holds and no relative/birth assertion sits on a coin created in the bundle; an Impossible*Constraints rejection must be backed by an unsatisfiable before/after pair in the same scope. 0-3 bystander conditions per spend (ASSERT_EPHEMERAL on ephemeral spends, ASSERT_MY_*, announcements, REMARK, ...) that are satisfied by construction are mixed in between the locks; out-of-range arguments include 1-2 KiB atoms.",
         "Chain values are generated below the type maxima; legacy wrapping mode is out of scope.",
         "DESIGN.md sections 9.2/9.6 and 4, C03"),
 "C04": ("bounded-exhaustive sweep of the cost table + proptest; cost model (exact big-integer table), clvmr re-execution and limit metamorphic relation",
         "Every row of the condition cost table (35 opcodes, unknown opcodes, all 256 two-byte cost slots × 5 high bytes, SOFTFORK arguments to 2^32-1, per-spend cost) is enumerated in both fork modes and both visitors and compared with the model's table; random bundles at parse_spends, run_block_generator2, run_block_generator and run_spendbundle (byte and INTERNED_GENERATOR pricing) must satisfy cost = byte|interned + execution + condition with execution cost recomputed by the harness with clvmr and the interned size by the harness's own de-duplication; accumulators must add up; every accepted result is re-run at max_cost = cost (identical result), at cost-1 and smaller limits (cost-exceeded) and at a larger limit (same cost). Exhaustive over the table rows, sampled elsewhere. Limits are additionally probed at every prefix sum of the cost components (generator bytes, generator CLVM, each spend) ± 1.",
         "Legacy-path execution cost is taken from the report (only the sum identity and limit behaviour are checked there).",
         "DESIGN.md sections 9.2/9.6 and 4, C04"),
 "C05": ("proptest; constructive oracle (the harness signs the messages its own opcode table prescribes) plus single-point tamperings at every entry point and cache state",
         "Bundles mixing the 8 AGG_SIG opcodes over amounts of every encoding length, three sets of domain constants: the multiset of (key, final message) the rules prescribe must equal run_spendbundle's pkm_pairs and make_aggsig_final_message; the correctly signed bundle must be accepted at parse_spends (both visitors), run_block_generator2, run_block_generator and validate_clvm_and_signature with no/cold/warm BlsCache; 19 single-point tamperings (share omitted/extra, negated/identity aggregate, message or key changed on either side, parent/puzzle/amount changed incl. across the sign-byte boundary, wrong domain constant, opcodes swapped, condition omitted/duplicated/moved, other network) must each be rejected; AGG_SIG_UNSAFE messages ending in any domain constant and 7 kinds of unacceptable keys are rejected everywhere while near misses are not. A fourth sub-check enumerates bundles with 1..2051 distinct signature conditions (every power of two from 64 to 2048 ± 3): the full aggregate is accepted by pre-validation and block validation, one pairing is returned per condition, any single missing share is rejected.",
         "Signatures are produced with chia-bls itself (its correctness is C15/C16's subject).",
         "DESIGN.md sections 9.2/9.6 and 4, C05"),
 "C06": ("proptest; metamorphic relations between runs (strict ⇒ lenient with identical summary; permutation invariance incl. at the cost limit)",
         "No model: (1) for strictness sets S1 ⊆ S2 ⊆ {NO_UNKNOWN_CONDS, STRICT_ARGS_COUNT, LIMIT_SPENDS}, Ok under S2 implies Ok under S1 with an identical summary; (2) a generated permutation of spends and of conditions within spends leaves verdict, cost, every aggregate and every per-coin summary unchanged (ELIGIBLE_FOR_FF excepted), also at max_cost = cost and cost-1. Generators are biased to bundles that pass full strictness so the premises hold in ~60% of cases.",
         "Signature validation is off in these runs; created-coin lists are compared as sets.",
         "DESIGN.md sections 9.2/9.6 and 4, C06"),
 "C07": ("proptest + libFuzzer; differential legacy vs native generator execution",
         "run_block_generator and run_block_generator2 are run on the same program, block references, flags and cost limit: structured generators (library-built, quoted plain/back-reference, procedural cons, deserializing a block reference through the passed deserializer) with labelled output-shape mutations, byte-mutated programs, flag sets incl. MEMPOOL_MODE/SIMPLE_GENERATOR/LIMIT_HEAP, limits at and between the two totals. Both-accept must agree on spends, conditions, amounts, fee, locks and condition cost with native cost ≤ legacy cost; the only tolerated asymmetry is the legacy path failing on cost/interpreter resource limits.",
         "INTERNED_GENERATOR is excluded (the legacy path has no interned pricing); error codes of double rejections are not compared.",
         "DESIGN.md sections 9.2/9.6 and 4, C07"),
 "C08": ("proptest; differential over five validation paths plus cost and length relations",
         "run_spendbundle vs run_block_generator2 on four generators built from the same bundle (solution_generator, solution_generator_backrefs, BlockBuilder, InternedBlockBuilder) under 8 flag sets × byte/interned pricing: same verdict, same conditions (matched by coin id), condition cost equal, execution cost differing by the quote (20), cost(plain) − cost(mempool) = 20 + 2·cost_per_byte (byte mode) or 20 (interned), non-byte cost equal across serializations, interned cost independent of serialization, predicted generator length = actual. Rare bulk bundles of about 1 MB of repetitive content (two spends sharing a 400-520 kB atom; ~3000 spends of one puzzle) exercise the regime where byte pricing, interned pricing and compression differ most.",
         "Mempool-only outputs (eligibility bits, fingerprint) excluded; reveals are plainly serialized (the statement's precondition).",
         "DESIGN.md sections 9.2/9.6 and 4, C08"),
 "C09": ("proptest + libFuzzer; differential of every trusted helper against validated conditions",
         "For generators accepted by run_block_generator2 (all CREATE_COIN memo shapes, amount encodings, unknown/non-atom opcodes, spend-level extra fields): additions_and_removals, get_coinspends_for_trusted_block (incl. re-validation of the rebuilt generator), get_coinspends_with_conditions_for_trusted_block, get_puzzle_and_solution_for_coin for every removed coin, and SpendBundle::additions (for bundles also valid under mempool strictness) must report what validation reports. INTERNED_GENERATOR pricing in a quarter of the cases; one case in 600 is a 0.5-1.3 MB repetitive block validated within the real block cost limit.",
         "The validated conditions are the reference. SpendBundle::additions is asserted only for bundles valid under mempool strictness (in pure consensus mode a pair opcode is ignored, this convenience helper refuses it).",
         "DESIGN.md sections 9.2/9.6 and 4, C09"),
 "C10": ("proptest stateful (model-based) add/finalize histories for both builders; model of accepted attempts, consensus re-run, fresh-builder comparison, exact-fit probing with a shadow builder",
         "Histories of 1-24 add_spend_bundles attempts (batches of 1-3 bundles from a pool with cross-bundle shared sub-trees, declared costs truthful / inflated / arbitrary / exact-fit computed with a shadow builder) followed by finalize, for BlockBuilder and InternedBlockBuilder: a rejected attempt leaves cost() unchanged; the finalized generator decodes to exactly the multiset of spends of the accepted attempts; the signature is the aggregate of exactly theirs; returned cost <= max_block_cost_clvm, <= the last cost() estimate, and equal to run_block_generator2's cost for truthful declarations; a fresh builder fed only the accepted attempts yields the same spends/signature and accepts the same later attempts; finalize never panics (in-flight recorder + process-death attribution). 'Family' pools (same-shaped bundles, some with atoms of 0.3-1.3 MB that are rejected only after serialization) exercise the undo path with megabytes of parsed content.",
         "An attempt is the whole batch (one declared cost, one limit test, one undo). Declared costs above twice the block limit are outside the documented contract and not generated. Byte-for-byte equality of generators is measured, not asserted.",
         "DESIGN.md sections 9.2/9.6 and 4, C10"),
 "C11": ("bounded-exhaustive enumeration + proptest random values against an arithmetic (num-bigint) reference and the interpreter's own encoder",
         "Every integer encoder/decoder in the tree (Coin::coin_id, u64_to_bytes, clvm_bytes_len, clvm-traits ints of every width, compute_coin_id and the AGG_SIG_AMOUNT suffix as consensus reports them, sanitize_uint widths 4/8) is compared with an arithmetic reference and with clvmr's Allocator::new_number on: all boundary values (2^k±3, all 1-/2-bit patterns, all 16-bit values), every value below 2^27 (quick) / 2^32 (thorough), millions of random values of every bit length, every atom of length ≤2 and every atom of length 3..10 over {00,01,7f,80,ff}. Exhaustive on those finite sub-domains, sampled elsewhere; a moved ladder threshold is caught because the thresholds themselves are enumerated. A recording ClvmEncoder and tree_hash() of integers are further encoder paths; 3 % of the random atoms are oversized (30 bytes .. 64 KiB).",
         "Trusts num-bigint's two's-complement conversion and clvmr's Allocator (cross-checked against each other in every case). Private helpers are observed through their public callers.",
         "DESIGN.md sections 9.2/9.6 and 4, C11"),
 "C12": ("proptest + bounded-exhaustive enumeration of proof trees; reference trie hash and independent proof parser; root-preserving proof rewrites",
         "compute_merkle_set_root, MerkleSet::from_leafs().get_root() and a reference implementation written from the definition agree under permutation and duplication; generate_proof/validate_merkle_proof are complete for members and non-members sharing k-bit prefixes with members; soundness is attacked with structural rewrites of honest proofs (the model decides which keep the root) and with exhaustive enumeration of all proof trees over small alphabets/depths validated against every honest subset root: validate_merkle_proof must return Err or the true membership. Exhaustive on the enumerated spaces, sampled elsewhere. Staircase sets (up to 257 leaves with a non-empty sibling at almost every one of the 256 levels) produce the longest honest proofs (8737 bytes).",
         "Soundness over all byte strings can be refuted, not proved; the bounds explored are in the evidence.",
         "DESIGN.md sections 9.2/9.6 and 4, C12"),
 "C13": ("proptest over a registry of 226 Streamable types; round-trip, canonicity under single-byte perturbation, hash relation, trusted/untrusted agreement",
         "For well-formed generated values of every Streamable type in chia-protocol, chia-bls, chia-consensus, chia-datalayer and the primitive/combinator instantiations (version-packed ProofOfSpace/FullBlock/UnfinishedBlock fixed up through 24 container types): from_bytes(to_bytes(v)) = v (also unchecked); every single-byte perturbation, truncation and extension of the encoding that still decodes must re-encode to exactly those bytes; hash = sha256(encoding), with the quality-string commitment rule for version-2 proofs of space checked on the 7 recorded vectors inside every container; untrusted acceptance implies trusted acceptance with the same value. A registry-drift detector reports uncovered types in the evidence. Sub-check big-lists: lists whose length lies around the decoder's 2 MiB pre-allocation limit of their element type (in memory and in wire bytes) and multiples of it, 18 element types x {bare, followed by a field} + RespondToPhUpdates.",
         "Canonicity over all byte strings can be refuted, not proved; values embedding a v2 proof without a quality string have no defined hash and are skipped (counted).",
         "DESIGN.md sections 9.2/9.6 and 4, C13"),
 "C14": ("proptest with adversarial byte generators, counting global allocator and in-flight recorder; totality and resource invariants",
         "For every registry type, trusted and untrusted: random bytes, mutated valid encodings, valid +- one byte, every length-prefix window set to 2^32-1/2^31/2^24/remaining+1, nested length prefixes, deep/huge Program fields, swept version/prefix bytes. Decoding returns Ok or Err without panic; peak extra allocation stays below 32 MiB + 64*len (counting allocator); trailing/missing bytes are rejected; on Ok, to_bytes/hash/==/clone complete. A process death is attributed by the driver to the in-flight case and is a violation of this property. Sub-check big-lists: valid encodings of long lists with further well-formed elements behind the last one, the length prefix off by one, a trailing / missing byte. Every decode is additionally bounded in CPU time of the decoding thread (0.5 s + 20 µs/byte, reported only when six consecutive decodes of the same input exceed it).",
         "'Never loops' has no timing assertion: the engine watchdog (exit 2) is the only safety net. The ProofOfSpace hash panic (F3) is a listed known finding.",
         "DESIGN.md sections 9.2/9.6 and 4, C14"),
 "C15": ("proptest (model-based cache histories) + exhaustive enumeration of thread interleavings through feature-gated yield points; secret-key model of the verdict",
         "verify, aggregate_verify, aggregate_verify_gt (over harness-computed pairings) and BlsCache::aggregate_verify (cold/warm) are compared with a model that knows every secret key (valid iff no key is infinity and the signature equals the aggregate the harness computed) on pair lists with repeated keys/messages, empty messages, the infinity key, tampered/identity/off-subgroup signatures; sequential histories of Verify/Update/Evict on caches of capacity 1..6 check len <= capacity and history-independence; concurrent verifications are executed under a controller that owns the schedule (yield point before every BlsCache lock acquisition, feature chia-bls/verif-hooks): all interleavings of 2 threads x <=2 pairs are enumerated exhaustively, larger configurations sampled. The infinity key appears in four in-memory representations (default, parsed, pk + (-pk), pk(sk) + pk(r-sk)).",
         "Interleavings are explored at lock granularity (what the statement names); races inside the Mutex or in blst are out of reach. The hook is compiled only with the feature, which no /repo workspace member enables.",
         "DESIGN.md sections 9.2/9.6 and 4, C15"),
 "C16": ("proptest; round-trip, unique-encoding and homomorphism laws with an independent subgroup-order test",
         "Public keys, signatures, secret keys and GT elements round-trip with unique encodings (also through Streamable); checked parsing accepts only infinity or points of order r (decided independently by (r-1)P + P = 0) and is a subset of unchecked parsing, on perturbed encodings (flag bits, stray infinity bits, x +- field modulus, random on-curve x, scalars around the group order); unhardened derivation and synthetic-key derivation commute with taking the public key along whole paths incl. boundary indexes; key addition is a homomorphism; signing is deterministic. Sub-check key-sequences: the derivation laws over call sequences alternating between two master keys, incl. distinct keys with EQUAL 32-bit fingerprints found by a birthday search at start-up.",
         "The commutation law cannot see a synthetic offset that is wrong on both routes (both call the same private function); agreement with the standard definition is measured as a label, asserted only with VERIF_C16_ASSERT_DEFINITION=1.",
         "DESIGN.md sections 9.2/9.6 and 4, C16"),
 "C17": ("proptest (trees and cache histories) + exhaustive small-atom sweep against a recursive reference hash",
         "tree_hash, tree_hash_cached (fresh cache, reused cache, after the visit_tree pre-pass, across histories of up to 8 trees sharing sub-trees in one allocator), tree_hash_from_bytes on plain and back-reference serializations, the TreeHasher encoder, curry_tree_hash and (through fast_forward_singleton) curry_and_treehash are all compared with the harness's reference sha256 tree hash on deep chains (50k), wide lists, layered DAGs and every allocator representation of small atoms; the 24 precomputed small-atom hashes are recomputed exhaustively. Sub-check big-cache-history: one TreeCache across more than 2^16 memoized pairs; atoms of 1-70 KB.",
         "The reference hash is the harness's own bottom-up implementation over an arena; clvmr is trusted for serialization of inputs.",
         "DESIGN.md sections 9.2/9.6 and 4, C17"),
 "C18": ("proptest stateful (model-based) histories against a BTreeMap model and an independent tree-hash/proof recomputation",
         "Histories of up to 60 operations (insert at auto/root/leaf locations incl. free and out-of-range indexes, upsert, delete, batch insert with fresh and duplicate entries, lazy hash calculation, reload, proofs) over small and large key spaces; after every step the blob's content equals the model (updated iff the operation returned Ok), check_integrity passes, a failed operation leaves content/root unchanged, reload is equivalent, the root equals the harness's bottom-up recomputation and every key has a valid inclusion proof ending in that root. Known genuine defects are keyed on oracle signatures and excluded by construction so the search continues behind them. One history in twenty starts with a chain prologue (2-140 inserts each at the leaf inserted last, i.e. a tree as deep as it has leaves).",
         "The model encodes no failure policy: which operations must succeed is not asserted (only non-vacuity floors).",
         "DESIGN.md sections 9.2/9.6 and 4, C18"),
 "C19": ("proptest; re-execution of rewritten singleton spends, metamorphic pairs for fingerprint injectivity, independent scan for eligibility",
         "Genuine singleton spends (real SINGLETON_TOP_LAYER_V1_1 curried, (q . conditions) inner puzzles, consistent lineage; plus the two recorded spends) are fast-forwarded onto generated targets: whenever the rewrite succeeds the new solution may differ from the old one only at the three lineage/amount atoms, must run as a spend of the new coin through run_spendbundle and create the same coins; 23 kinds of single-field corruption must be refused. Pairs of condition lists for the same coin differing by one atom, an atom-boundary shift, a hint shape, a memo, a REMARK argument, a swap or an integer encoding: equal dedup fingerprints (both accepted and eligible) imply equal parsed conditions and summaries. ELIGIBLE_FOR_DEDUP implies no AGG_SIG/message condition and created value >= coin amount, by an independent scan. 27 corruptions, incl. coins that carry the puzzle hash of a sibling singleton differing from the reveal in one curried component.",
         "That genuine inputs are in fact rewritten is a non-vacuity floor, not an assertion. Injectivity over all pairs can be refuted, not proved.",
         "DESIGN.md sections 9.2/9.6 and 4, C19"),
 "C20": ("proptest through an embedded CPython interpreter (pyo3): JSON-dict round-trip plus single-node corruptions that must raise",
         "For generated values of 178 root types (every #[streamable] struct of chia-protocol read from the sources at build time, conditions, datalayer records, BLS elements, all integer widths, Option/Vec/tuple/array combinators) from_json_dict(to_json_dict(v)) must reproduce the value, its bytes and its hash; 12 single-node edits per case are classified as invalid (deleted key, None for non-optional, out-of-range/typed-wrong integers, bad hex, wrong fixed lengths, wrong tuple/array arity: must raise) or valid (must be accepted and reflected exactly). About 1 % of the byte strings and program atoms are 1-100 KB long.",
         "Runs the Rust callees of the Python bindings through an embedded interpreter; the cdylib wrappers in wheel/src/api.rs are not linked. Edits whose validity the statement does not fix (missing 0x prefix, deleted key of an Option field) are counted but not asserted.",
         "DESIGN.md sections 9.2/9.6 and 4, C20"),
}

NOT_YET = "check not built yet in this revision of /verif (work in progress; see DESIGN.md section 4 for the planned generated-input check)"

def main():
    props = [json.loads(l) for l in open(os.path.join(ROOT, "properties.jsonl"))]
    checks, na = [], []
    for p in props:
        pid = p["id"]
        if pid in CHECKS:
            tech, text, note, ref = CHECKS[pid]
            checks.append({
                "property_id": pid,
                "quick_cmd": f"./check {pid} quick",
                "thorough_cmd": f"./check {pid} thorough",
                "evidence_file": f"/verif/evidence/{pid}.json",
                "replay_cmd_template": "./check --replay {path}",
                "engine": "vcore",
                "level_claimed": {"category": "exploration", "text": text, "design_ref": ref},
                "level_note": note,
                "technique": tech,
            })
        else:
            na.append({"property_id": pid, "reason": NOT_YET})
    m = {
        "version": 1,
        "setup_cmd": "./setup.sh",
        "hooks": {
            "guard": "cargo feature chia-bls/verif-hooks",
            "enable": "the harness crates that need the hooks depend on /repo/crates/chia-bls with features = [\"verif-hooks\"]; no workspace member of /repo enables it",
            "baseline_off_cmd": "cd /repo && cargo test --workspace --no-fail-fast --offline",
            "source_commits": HOOK_COMMITS,
            "add_only": True,
        },
        "engines": [
            {"name": "vcore", "path": "/verif/harness/vcore", "serves_properties": sorted(CHECKS),
             "kind_free_text": "property-based testing engine: every case is a pure function of a byte choice sequence; proptest TestRunner (fixed seed from VERIF_SEED, no persistence) generates and shrinks the bytes, deterministic enumerators cover finite sub-domains, libFuzzer targets in /verif/fuzz drive the same case functions; replay file = the bytes"},
        ],
        "checks": checks,
        "not_applicable": na,
        "notes": "Single driver ./check <id> <tier>; rebuilds the harness against /repo's working tree via path dependencies. Exit 2 = inconclusive/harness problem, never a violation. Known findings: /verif/known_findings.json.",
    }
    if not na:
        del m["not_applicable"]
    json.dump(m, open(os.path.join(ROOT, "MANIFEST.json"), "w"), indent=1, ensure_ascii=False)
    print("MANIFEST.json written:", len(checks), "checks,", len(na), "not_applicable")

HOOK_COMMITS = ["504bd06858d94d05adea6988870f648565691bad"]

if __name__ == "__main__":
    main()
