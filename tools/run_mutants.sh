#!/bin/bash
# usage: tools/run_mutants.sh <Cxx>... ; appends one line per mutant to /verif/mutants/RESULTS.txt
cd /verif
for pid in "$@"; do
  for d in mutants/$pid/*.diff; do
    name=$(basename $d .diff)
    out=$(tools/mutant_test.sh $pid $d --no-evidence --scale ${MUT_SCALE:-0.3} 2>&1)
    rc=$(echo "$out" | grep -o "MUTANT-EXIT=[0-9]*\|MUTANT-BUILD-FAILED\|PATCH-FAILED" | tail -1)
    sig=$(echo "$out" | grep -o "^failure in [^ ]*: [^ ]*" | head -3 | tr '\n' ';')
    echo "$(date +%H:%M) $pid $name $rc $sig" >> mutants/RESULTS.txt
  done
done
