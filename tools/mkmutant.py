#!/usr/bin/env python3
"""mkmutant.py <Cxx> <name> <repo-relative-file> <old> <new> [occurrence]
Writes /verif/mutants/<Cxx>/<name>.diff (diff -u, -p1) replacing the n-th occurrence of <old> by <new>."""
import sys, os, subprocess, tempfile
pid, name, rel, old, new = sys.argv[1:6]
occ = int(sys.argv[6]) if len(sys.argv) > 6 else 1
src = open(os.path.join('/repo', rel)).read()
idx = -1
for _ in range(occ):
    idx = src.find(old, idx + 1)
    if idx < 0:
        print('OLD TEXT NOT FOUND', name); sys.exit(1)
mut = src[:idx] + new + src[idx + len(old):]
with tempfile.NamedTemporaryFile('w', suffix='.rs', delete=False) as f:
    f.write(mut); tmp = f.name
out = subprocess.run(['diff', '-u', '--label', 'a/' + rel, '--label', 'b/' + rel, os.path.join('/repo', rel), tmp], capture_output=True, text=True).stdout
os.unlink(tmp)
d = f'/verif/mutants/{pid}'
os.makedirs(d, exist_ok=True)
open(f'{d}/{name}.diff', 'w').write(out)
print('wrote', f'{d}/{name}.diff', len(out.splitlines()), 'lines')
