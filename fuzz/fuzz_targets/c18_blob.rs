#![no_main]
use libfuzzer_sys::fuzz_target;
// the same case function the proptest driver uses (generator + oracle)
fuzz_target!(|data: &[u8]| {
    vcore::engine::fuzz_one("C18", "histories", c18::case_history, data);
});
