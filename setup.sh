#!/bin/sh
# MANIFEST.setup_cmd — build the whole framework offline from files on disk.
# Every property crate is built on its own (`-p`), exactly as `./check` does, so
# that cargo's feature unification matches and the first check does not rebuild
# (the C20 crate enables the py-bindings features of the repo crates).
cd "$(dirname "$0")"
export CARGO_NET_OFFLINE=true
cd harness
failed=""
for d in props/*/; do
  c=$(basename "$d")
  echo "[setup] building $c"
  if ! cargo build --release -p "$c" 2>&1 | tail -3; then failed="$failed $c"; fi
done
[ -n "$failed" ] && echo "[setup] WARNING: failed to build:$failed (their checks will report exit 2)"
echo "setup done"
exit 0
