#!/bin/sh
# MANIFEST.setup_cmd — build the whole framework offline from files on disk.
set -e
cd "$(dirname "$0")"
export CARGO_NET_OFFLINE=true
(cd harness && cargo build --release --workspace)
echo "setup done"
